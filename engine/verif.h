// Common interface between the generic drivers (rapidcheck / libFuzzer / replay)
// and the per-property harnesses.  No libcoap header is included here.
#pragma once
#include <cstdint>
#include <cstddef>
#include <cstring>
#include <cstdio>
#include <cstdarg>
#include <string>
#include <vector>
#include <map>

namespace verif {

// Choice tape: every random decision of a case is read from it.  An exhausted
// tape yields 0 and 0 always means "the simplest choice".
struct Tape {
  const uint8_t *p;
  size_t n;
  size_t pos = 0;
  Tape(const uint8_t *d, size_t l) : p(d), n(l) {}
  bool exhausted() const { return pos >= n; }
  size_t left() const { return pos < n ? n - pos : 0; }
  uint8_t u8() { return pos < n ? p[pos++] : 0; }
  uint16_t u16() { uint16_t a = u8(); return (uint16_t)(a | (u8() << 8)); }
  uint32_t u32() { uint32_t a = u16(); return a | ((uint32_t)u16() << 16); }
  uint64_t u64() { uint64_t a = u32(); return a | ((uint64_t)u32() << 32); }
  // uniform-ish in [lo,hi]; uses as few bytes as the span needs
  uint32_t range(uint32_t lo, uint32_t hi) {
    if (hi <= lo) return lo;
    uint32_t span = hi - lo;
    uint32_t v;
    if (span < 256) v = u8();
    else if (span < 65536) v = u16();
    else v = u32();
    if (span == 0xffffffffu) return lo + v;
    return lo + v % (span + 1);
  }
  bool flag() { return u8() & 1; }
  // true with probability about num/256 ; 0 => false
  bool chance(unsigned num) { return u8() >= 256 - num; }
  // index into a weight table; index 0 is the "simplest" alternative
  size_t pick(std::initializer_list<unsigned> w) {
    unsigned tot = 0;
    for (unsigned x : w) tot += x;
    unsigned v = range(0, tot - 1);
    size_t i = 0;
    for (unsigned x : w) {
      if (v < x) return i;
      v -= x;
      i++;
    }
    return 0;
  }
  template <class T, size_t N> T choose(const T (&arr)[N]) { return arr[range(0, N - 1)]; }
  void bytes(uint8_t *out, size_t len) {
    for (size_t i = 0; i < len; i++) out[i] = u8();
  }
  std::vector<uint8_t> vec(size_t len) {
    std::vector<uint8_t> v(len);
    bytes(v.data(), len);
    return v;
  }
  // cheap bulk filler for large blobs: a few tape bytes expand into len bytes
  std::vector<uint8_t> blob(size_t len) {
    std::vector<uint8_t> v(len);
    uint32_t s = u16() | 0x10000u;
    for (size_t i = 0; i < len; i++) {
      s = s * 1103515245u + 12345u;
      v[i] = (uint8_t)(s >> 16);
    }
    return v;
  }
};

struct Info {
  bool want_render = true;      // driver may clear it to save time
  std::string render;           // human-readable rendering of the decoded case
  std::string message;          // violation explanation
  bool nontrivial = false;      // case satisfied the property's stated rule
  bool inconclusive = false;    // a cap was hit; counted, never a violation
  std::vector<const char *> labels;  // class labels (string literals)
  std::map<std::string, uint64_t> excluded;  // known-finding key -> instances excluded
  std::map<std::string, uint64_t> counters;  // free-form additive counters (e.g. windows enumerated, crash points)
  void count(const char *k, uint64_t n = 1) { counters[k] += n; }
  uint64_t fp = 0xcbf29ce484222325ull;
  bool fp_set = false;
  void label(const char *l) { labels.push_back(l); }
  void mix(const void *d, size_t len) {
    const uint8_t *b = (const uint8_t *)d;
    for (size_t i = 0; i < len; i++) { fp ^= b[i]; fp *= 0x100000001b3ull; }
    fp_set = true;
  }
  void mixu(uint64_t v) { mix(&v, sizeof v); }
  void fail(const char *fmt, ...) __attribute__((format(printf, 2, 3))) {
    char buf[2048];
    va_list ap;
    va_start(ap, fmt);
    vsnprintf(buf, sizeof buf, fmt, ap);
    va_end(ap);
    if (message.empty()) message = buf;
  }
  void rs(const std::string &s) { if (want_render && render.size() < 20000) render += s; }
  void r(const char *fmt, ...) __attribute__((format(printf, 2, 3))) {
    if (!want_render) return;
    if (render.size() > 20000) return;
    char buf[1024];
    va_list ap;
    va_start(ap, fmt);
    vsnprintf(buf, sizeof buf, fmt, ap);
    va_end(ap);
    render += buf;
  }
};

std::string hex(const uint8_t *d, size_t n, size_t max = 48);
inline std::string hex(const std::vector<uint8_t> &v, size_t max = 48) { return hex(v.data(), v.size(), max); }

// Is `key` listed as a recorded (unrepaired) known finding for this property?
// When true the harness excludes that instance by construction and counts it.
bool known(const char *key);
// convenience: if key is known, count the exclusion in info and return true
bool exclude_known(Info *info, const char *key);

enum { HELD = 0, VIOLATION = 1, OUT_OF_DOMAIN = 2 };

}  // namespace verif

// ---- implemented by each property harness -----------------------------------------
extern const char *verif_property_id;   // "C01"
extern const char *verif_rule;          // generation + non-trivial rule, for the evidence
extern size_t verif_max_tape;           // longest useful tape (bytes)
void verif_init();                      // once per process: self tests of reference models
int verif_case(const uint8_t *tape, size_t len, verif::Info *info);
