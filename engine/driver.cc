// Generic driver: one binary per property, three engines.
//   <bin> rc                      rapidcheck tape generator (+shrinking); RC_PARAMS configures it
//   <bin> fuzz <libFuzzer args>   coverage-guided libFuzzer on the same tape
//   <bin> replay <file>...        run saved tapes once each (exit 0 held, 10 violation, 11 out of domain)
//   <bin> show <file>             print the decoded case
// Environment: VERIF_STATS=<path> (stats JSON written at exit), VERIF_OUT=<dir> (violation tapes),
//              VERIF_KNOWN=<key,key,...> known-finding keys to exclude by construction,
//              VERIF_CURRENT=<path> file that always holds the tape being executed (crash triage)
#include "verif.h"
#include <unordered_set>
#include <algorithm>
#include <cstdlib>
#include <fcntl.h>
#include <sys/mman.h>
#include <signal.h>
#include <sys/stat.h>
#include <unistd.h>
#include <set>

extern "C" int LLVMFuzzerRunDriver(int *argc, char ***argv, int (*cb)(const uint8_t *, size_t));
int verif_rc_main();  // drv_rc.cc
// optional: enumeration of a finite sub-space.  Returns the size of the space; when tape != nullptr fills the i-th tape.
size_t verif_enum(uint64_t i, std::vector<uint8_t> *tape) __attribute__((weak));

namespace verif {

std::string hex(const uint8_t *d, size_t n, size_t max) {
  static const char *H = "0123456789abcdef";
  std::string s;
  size_t m = n < max ? n : max;
  for (size_t i = 0; i < m; i++) { s += H[d[i] >> 4]; s += H[d[i] & 15]; }
  if (n > max) { char b[32]; snprintf(b, sizeof b, "..(%zu)", n); s += b; }
  return s;
}

static std::set<std::string> g_known;
bool known(const char *key) { return g_known.count(key) != 0; }
bool exclude_known(Info *info, const char *key) {
  if (!known(key)) return false;
  info->excluded[key]++;
  return true;
}

struct Stats {
  uint64_t evaluations = 0, held = 0, violations = 0, out_of_domain = 0, inconclusive = 0, nontrivial = 0;
  std::unordered_set<uint64_t> fps;
  std::map<std::string, uint64_t> labels, excluded, counters;
  std::vector<std::string> samples;
  std::string mode;
} g;

static uint8_t *g_cur = nullptr;  // mmap'd "current tape" file
static size_t g_cur_cap = 0;

static void cur_open() {
  const char *p = getenv("VERIF_CURRENT");
  if (!p) return;
  g_cur_cap = 1 << 20;
  int fd = open(p, O_RDWR | O_CREAT | O_TRUNC, 0644);
  if (fd < 0) return;
  if (ftruncate(fd, g_cur_cap) != 0) { close(fd); return; }
  void *m = mmap(nullptr, g_cur_cap, PROT_READ | PROT_WRITE, MAP_SHARED, fd, 0);
  close(fd);
  if (m != MAP_FAILED) g_cur = (uint8_t *)m;
}
static void cur_set(const uint8_t *t, size_t n) {
  if (!g_cur) return;
  if (n > g_cur_cap - 8) n = g_cur_cap - 8;
  uint64_t len = n;
  if (n) memcpy(g_cur + 8, t, n);
  memcpy(g_cur, &len, 8);
}

static std::string jesc(const std::string &s) {
  std::string o;
  for (unsigned char c : s) {
    if (c == '"' || c == '\\') { o += '\\'; o += c; }
    else if (c == '\n') o += "\\n";
    else if (c < 0x20 || c >= 0x7f) { char b[8]; snprintf(b, sizeof b, "\\u%04x", c); o += b; }
    else o += c;
  }
  return o;
}

void dump_stats() {
  const char *p = getenv("VERIF_STATS");
  if (!p) return;
  std::string tmp = std::string(p) + ".tmp";
  FILE *f = fopen(tmp.c_str(), "w");
  if (!f) return;
  fprintf(f, "{\"mode\":\"%s\",\"evaluations\":%llu,\"held\":%llu,\"violations\":%llu,\"out_of_domain\":%llu,"
             "\"inconclusive\":%llu,\"nontrivial\":%llu,\"distinct_nontrivial\":%zu,\n",
          g.mode.c_str(), (unsigned long long)g.evaluations, (unsigned long long)g.held,
          (unsigned long long)g.violations, (unsigned long long)g.out_of_domain,
          (unsigned long long)g.inconclusive, (unsigned long long)g.nontrivial, g.fps.size());
  fprintf(f, "\"labels\":{");
  bool first = true;
  for (auto &kv : g.labels) { fprintf(f, "%s\"%s\":%llu", first ? "" : ",", jesc(kv.first).c_str(), (unsigned long long)kv.second); first = false; }
  fprintf(f, "},\n\"excluded\":{");
  first = true;
  for (auto &kv : g.excluded) { fprintf(f, "%s\"%s\":%llu", first ? "" : ",", jesc(kv.first).c_str(), (unsigned long long)kv.second); first = false; }
  fprintf(f, "},\n\"counters\":{");
  first = true;
  for (auto &kv : g.counters) { fprintf(f, "%s\"%s\":%llu", first ? "" : ",", jesc(kv.first).c_str(), (unsigned long long)kv.second); first = false; }
  fprintf(f, "},\n\"samples\":[");
  first = true;
  for (auto &s : g.samples) { fprintf(f, "%s\"%s\"", first ? "" : ",\n", jesc(s).c_str()); first = false; }
  fprintf(f, "]}\n");
  fclose(f);
  rename(tmp.c_str(), p);
  // fingerprints (for the union over workers)
  std::string fpp = std::string(p) + ".fp";
  f = fopen(fpp.c_str(), "wb");
  if (f) {
    size_t cnt = 0;
    for (uint64_t v : g.fps) { fwrite(&v, 8, 1, f); if (++cnt >= 4000000) break; }
    fclose(f);
  }
}

static void write_file(const std::string &path, const void *d, size_t n) {
  FILE *f = fopen(path.c_str(), "wb");
  if (!f) return;
  fwrite(d, 1, n, f);
  fclose(f);
}

void save_violation(const char *name, const uint8_t *t, size_t n, const std::string &msg, const std::string &render) {
  const char *out = getenv("VERIF_OUT");
  if (!out) return;
  std::string base = std::string(out) + "/" + name;
  write_file(base + ".tape", t, n);
  std::string txt = msg + "\n--- case ---\n" + render + "\n";
  write_file(base + ".txt", txt.data(), txt.size());
}

// Per-case watchdog (VERIF_CASE_TIMEOUT seconds of wall clock, opt-in): for properties that say "never loops forever" a case that
// does not return is the violation.  The process dies with a recognisable line; the supervisor picks up the current tape and replays it.
static void on_case_timeout(int) {
  static const char msg[] = "VERIF-CASE-TIMEOUT: the case did not return within the watchdog time\n";
  ssize_t r = write(2, msg, sizeof msg - 1);
  (void)r;
  _exit(124);
}
static unsigned case_timeout() {
  static int v = -1;
  if (v < 0) { const char *e = getenv("VERIF_CASE_TIMEOUT"); v = e ? atoi(e) : 0; if (v > 0) signal(SIGALRM, on_case_timeout); }
  return (unsigned)v;
}

// Run one case and account for it. count=false while shrinking.
int run_one(const uint8_t *t, size_t n, bool count, Info *out) {
  Info info;
  cur_set(t, n);
  struct AlarmGuard { AlarmGuard() { if (case_timeout()) alarm(case_timeout()); } ~AlarmGuard() { if (case_timeout()) alarm(0); } } alarm_guard;
  // sample renders: first 4, then every power-of-two-th non-trivial case
  info.want_render = true;
  int v = verif_case(t, n, &info);
  if (count) {
    g.evaluations++;
    if (v == HELD) g.held++;
    else if (v == VIOLATION) g.violations++;
    else g.out_of_domain++;
    if (info.inconclusive) g.inconclusive++;
    for (auto &kv : info.excluded) g.excluded[kv.first] += kv.second;
    for (auto &kv : info.counters) g.counters[kv.first] += kv.second;
    for (const char *l : info.labels) g.labels[l]++;
    if (info.nontrivial && v != OUT_OF_DOMAIN) {
      g.nontrivial++;
      uint64_t fp = info.fp;
      if (!info.fp_set) { Info h; h.mix(info.render.data(), info.render.size()); fp = h.fp; }
      if (g.fps.size() < 4000000) g.fps.insert(fp);
      uint64_t k = g.nontrivial;
      // deterministic thinning sample: the 3rd, 10th, 30th, 100th, ... non-trivial case
      static uint64_t next_a = 3, next_b = 10;
      if ((k == next_a || k == next_b) && g.samples.size() < 14) {
        g.samples.push_back(info.render.substr(0, 1500));
        if (k == next_a) next_a *= 10; else next_b *= 10;
      }
    }
  }
  if (out) *out = std::move(info);
  return v;
}

static std::vector<uint8_t> read_file(const char *p, bool *ok) {
  std::vector<uint8_t> v;
  FILE *f = fopen(p, "rb");
  *ok = f != nullptr;
  if (!f) return v;
  uint8_t buf[65536];
  size_t k;
  while ((k = fread(buf, 1, sizeof buf, f)) > 0) v.insert(v.end(), buf, buf + k);
  fclose(f);
  return v;
}

static int fuzz_cb(const uint8_t *d, size_t n) {
  Info info;
  int v = run_one(d, n, true, &info);
  if ((g.evaluations & 0x3fff) == 0) dump_stats();
  if (v == VIOLATION) {
    save_violation("violation-fuzz", d, n, info.message, info.render);
    fprintf(stderr, "VERIF-VIOLATION: %s\n", info.message.c_str());
    dump_stats();
    __builtin_trap();
  }
  return 0;
}

}  // namespace verif

using namespace verif;

int main(int argc, char **argv) {
  if (argc < 2) {
    fprintf(stderr, "usage: %s rc | fuzz <args> | replay <file>... | show <file>\n", argv[0]);
    return 2;
  }
  if (const char *k = getenv("VERIF_KNOWN")) {
    std::string s(k), cur;
    for (char c : s) { if (c == ',') { if (!cur.empty()) g_known.insert(cur); cur.clear(); } else cur += c; }
    if (!cur.empty()) g_known.insert(cur);
  }
  std::string mode = argv[1];
  g.mode = mode;
  verif_init();
  cur_open();
  if (mode == "rc") {
    int rc = verif_rc_main();
    dump_stats();
    return rc;
  }
  if (mode == "fuzz") {
    atexit(dump_stats);
    int ac = argc - 1;
    char **av = argv + 1;
    av[0] = argv[0];
    return LLVMFuzzerRunDriver(&ac, &av, fuzz_cb);
  }
  if (mode == "enum") {
    if (!verif_enum) { fprintf(stderr, "property has no enumeration tier\n"); return 2; }
    uint64_t total = verif_enum(0, nullptr);
    uint64_t from = argc > 2 ? strtoull(argv[2], nullptr, 10) : 0, to = argc > 3 ? strtoull(argv[3], nullptr, 10) : total;
    if (to > total) to = total;
    for (uint64_t i = from; i < to; i++) {
      std::vector<uint8_t> t;
      verif_enum(i, &t);
      Info info;
      int v = run_one(t.data(), t.size(), true, &info);
      if (v == VIOLATION) {
        save_violation("violation-enum", t.data(), t.size(), info.message, info.render);
        fprintf(stderr, "VERIF-VIOLATION: %s\n", info.message.c_str());
        dump_stats();
        return 10;
      }
    }
    g.counters["enumerated"] += to > from ? to - from : 0;
    g.counters["enumeration_space"] = total;
    dump_stats();
    return 0;
  }
  if (mode == "replay" || mode == "show") {
    int worst = 0;
    for (int i = 2; i < argc; i++) {
      bool ok;
      std::vector<uint8_t> t = read_file(argv[i], &ok);
      if (!ok) { fprintf(stderr, "cannot read %s\n", argv[i]); return 3; }
      Info info;
      int v = run_one(t.data(), t.size(), true, &info);
      if (mode == "show" || v == VIOLATION)
        printf("%s: verdict=%d %s\n%s\n", argv[i], v, info.message.c_str(), info.render.c_str());
      int code = v == VIOLATION ? 10 : (v == OUT_OF_DOMAIN ? 11 : 0);
      if (code == 10 || (code == 11 && worst == 0)) worst = code;
    }
    dump_stats();
    return worst;
  }
  fprintf(stderr, "unknown mode %s\n", mode.c_str());
  return 2;
}
