// rapidcheck tape driver.  Configured only through RC_PARAMS (seed=, max_success=, max_size=).
#include "verif.h"
#include <rapidcheck.h>

namespace verif {
int run_one(const uint8_t *t, size_t n, bool count, Info *out);
void save_violation(const char *name, const uint8_t *t, size_t n, const std::string &msg, const std::string &render);
void dump_stats();
}

using namespace verif;

static std::vector<uint8_t> g_last_fail;
static std::string g_last_msg, g_last_render;
static bool g_failed = false;

int verif_rc_main() {
  using namespace rc;
  // byte generator: mostly uniform, with extra weight on the boundary values the
  // tape decoders give special meaning to (0 = simplest choice, 255 = last alternative)
  auto full = gen::resize(kNominalSize, gen::arbitrary<uint8_t>());
  auto byteGen = gen::weightedOneOf<uint8_t>({
      {12, full},
      {3, gen::just<uint8_t>(0)},
      {1, gen::just<uint8_t>(255)},
      {3, gen::resize(kNominalSize, gen::inRange<uint8_t>(0, 8))},
  });
  double scale = (double)verif_max_tape / 100.0;
  if (scale < 0.05) scale = 0.05;
  // tape length: uniform in [0, size'] with size' = 30 + 0.7*size, so that also the early (small size) cases
  // carry enough choices to reach the later decisions of a decoder; shrinking still deletes/lowers bytes
  auto baseGen = gen::scale(scale, gen::container<std::vector<uint8_t>>(byteGen));
  auto tapeGen = gen::withSize([=](int size) { return gen::resize(30 + size * 7 / 10, baseGen); });
  uint64_t n = 0;
  bool ok = rc::check(std::string("property ") + verif_property_id, [&]() {
    std::vector<uint8_t> tape = *tapeGen;
    Info info;
    int v = run_one(tape.data(), tape.size(), !g_failed, &info);
    if ((++n & 0x3fff) == 0 && !g_failed) dump_stats();
    if (v == VIOLATION) {
      g_failed = true;
      g_last_fail = tape;
      g_last_msg = info.message;
      g_last_render = info.render;
      RC_FAIL(info.message);
    }
  });
  if (!ok) {
    save_violation("violation-rc", g_last_fail.data(), g_last_fail.size(), g_last_msg, g_last_render);
    fprintf(stderr, "VERIF-VIOLATION: %s\n", g_last_msg.c_str());
    return 10;
  }
  return 0;
}
