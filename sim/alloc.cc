// Allocation table for libcoap's typed allocator (link with --wrap=coap_malloc_type,--wrap=coap_realloc_type,--wrap=coap_free_type).
// Records every live object with its type, can make the k-th request fail, and notices frees of objects that are already free.
#include "sim.h"
#include <sanitizer/common_interface_defs.h>

extern "C" {
void *__real_coap_malloc_type(coap_memory_tag_t type, size_t size);
void *__real_coap_realloc_type(coap_memory_tag_t type, void *p, size_t size);
void __real_coap_free_type(coap_memory_tag_t type, void *p);

static bool fail_now(void *ra) {
  uint64_t idx = sim::A.requests++;
  if ((int64_t)idx == sim::A.fail_at || (int64_t)idx == sim::A.fail_at2) {
    sim::A.failed++;
    sim::A.fail_site = ra;
    if (getenv("SIM_ALLOC_TRACE")) { char b[200]; __sanitizer_symbolize_pc(sim::A.fail_site, "%f %s:%l", b, sizeof b); fprintf(stderr, "FAILSITE %s\n", b); if (getenv("SIM_ALLOC_TRACE")[0] == '2') __sanitizer_print_stack_trace(); }
    return true;
  }
  return false;
}

void *__wrap_coap_malloc_type(coap_memory_tag_t type, size_t size) {
  if (size > sim::A.largest) sim::A.largest = size;
  if (fail_now(__builtin_return_address(0))) return nullptr;
  void *p = __real_coap_malloc_type(type, size);
  if (p && sim::A.enabled) { sim::A.live[p] = {(int)type, size}; sim::A.freed.erase(p); }
  return p;
}

void *__wrap_coap_realloc_type(coap_memory_tag_t type, void *p, size_t size) {
  if (size > sim::A.largest) sim::A.largest = size;
  if (fail_now(__builtin_return_address(0))) return nullptr;  // realloc failure leaves the old object alive
  void *q = __real_coap_realloc_type(type, p, size);
  if (sim::A.enabled) {
    if (q) {
      if (p && p != q) { sim::A.live.erase(p); sim::A.freed.insert(p); }
      sim::A.live[q] = {(int)type, size};
      sim::A.freed.erase(q);
    } else if (p && size == 0) { sim::A.live.erase(p); sim::A.freed.insert(p); }
  }
  return q;
}

void __wrap_coap_free_type(coap_memory_tag_t type, void *p) {
  if (p && sim::A.enabled) {
    auto it = sim::A.live.find(p);
    if (it != sim::A.live.end()) { sim::A.live.erase(it); sim::A.freed.insert(p); }
    else if (sim::A.freed.count(p)) {
      sim::A.double_frees++;
      sim::A.double_free_type = (int)type;
      return;  // keep the process alive so that the case can be reported and shrunk; the event is the violation
    }
  }
  __real_coap_free_type(type, p);
}
}
