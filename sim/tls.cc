// GnuTLS on the virtual clock: both time sources GnuTLS uses (wall clock for session/ticket validity, monotonic clock for the DTLS
// retransmission timers) are served from the simulated world.
#include "sim.h"
#include <gnutls/gnutls.h>
#include <time.h>

extern "C" void _gnutls_global_set_gettime_function(void (*)(struct timespec *));

namespace sim {
static const time_t EPOCH_BASE = 1790000000;   // a fixed date; only differences matter
static void vt_gettime(struct timespec *ts) {
  uint64_t ms = W ? W->now : 0;
  ts->tv_sec = EPOCH_BASE + (time_t)(ms / 1000);
  ts->tv_nsec = (long)(ms % 1000) * 1000000L;
}
static time_t vt_time(time_t *t) {
  time_t v = EPOCH_BASE + (time_t)((W ? W->now : 0) / 1000);
  if (t) *t = v;
  return v;
}
void hook_gnutls_time() {
  gnutls_global_set_time_function(vt_time);
  _gnutls_global_set_gettime_function(vt_gettime);
}
}  // namespace sim
