// Discrete-event simulation core: virtual clock, virtual datagram network and byte streams, scripted
// peers, trace.  libcoap runs unmodified on top of it through link-time interposition (ld --wrap) of
//   coap_ticks, coap_socket_bind_udp/connect_udp/send/recv, coap_socket_bind_tcp/connect_tcp1/connect_tcp2/accept_tcp,
//   recv, send (stream data of virtual TCP sockets), epoll_ctl, epoll_wait, close
// and, optionally, coap_malloc_type/coap_realloc_type/coap_free_type (allocation table, k-th failure).
#pragma once
#include "../props/lc.h"
#include <deque>
#include <functional>
#include <map>
#include <memory>
#include <set>

namespace sim {

struct Addr {
  uint8_t fam = 4;  // 4 or 6
  uint8_t ip[16] = {0};
  uint16_t port = 0;
  static Addr v4(uint8_t a, uint8_t b, uint8_t c, uint8_t d, uint16_t port);
  static Addr v6(const char *text, uint16_t port);
  static Addr from_coap(const coap_address_t *a);
  void to_coap(coap_address_t *out) const;
  bool is_any() const;
  bool is_mcast() const;
  bool same_ip(const Addr &o) const { return fam == o.fam && memcmp(ip, o.ip, 16) == 0; }
  bool operator==(const Addr &o) const { return same_ip(o) && port == o.port; }
  bool operator!=(const Addr &o) const { return !(*this == o); }
  bool operator<(const Addr &o) const;
  std::string str() const;
};

struct Datagram {
  Addr src, dst;
  std::vector<uint8_t> data;
  uint64_t sent_at = 0;
  unsigned index = 0;  // running number of the original transmission on the wire (both directions)
  bool is_dup = false;
};

enum Fate { DELIVER = 0, DROP = 1 };
struct FaultDecision {
  Fate fate = DELIVER;
  uint32_t delay = 0;       // ms until delivery
  uint32_t dups = 0;        // extra copies
  uint32_t dup_delay = 0;   // additional delay of each extra copy (relative to the previous copy)
};

enum EvKind { EV_SEND, EV_DELIVER, EV_DROP, EV_NOROUTE, EV_CALLBACK, EV_WAIT, EV_NOTE, EV_STREAM_TX, EV_STREAM_RX,
              EV_READ /* libcoap takes a delivered datagram out of its socket (EV_DELIVER = it arrived there) */ };
struct TraceEv {
  uint64_t t;
  EvKind kind;
  Addr src, dst;
  std::vector<uint8_t> data;
  unsigned index = 0;
  bool dup = false;
  bool from_lib = false;  // EV_SEND: sent by libcoap (true) or by a scripted peer (false)
  std::string note;
  uint64_t val = 0;
};

class World;

// A scripted (harness) datagram peer.
struct Peer {
  Addr addr;
  std::function<void(World &, Peer &, const Datagram &)> on_rx;
  std::vector<Datagram> inbox;
};

// One end of a virtual byte stream connection.
struct VSock;
struct StreamPeer {  // scripted (harness) stream endpoint
  Addr addr;
  bool listening = false;
  VSock *conn = nullptr;            // libcoap side of the established connection (if any)
  std::vector<uint8_t> rx;          // bytes libcoap wrote to us
  bool peer_closed = false;         // libcoap closed its end
  // what the scripted peer wrote / whether it closed before libcoap accepted the connection (the kernel keeps both for accept())
  std::vector<uint8_t> early;
  bool early_close = false, accepted = false;
  std::function<void(World &, StreamPeer &)> on_rx;  // called after new bytes arrived
  std::function<void(World &, StreamPeer &)> on_connect;
};

struct VSock {
  enum Kind { UDP_BOUND, UDP_CONN, TCP_LISTEN, TCP_CONN } kind = UDP_BOUND;
  int fd = -1;
  Addr local, remote;
  bool mcast_member = false;
  std::deque<Datagram> rxq;              // datagram sockets
  std::deque<uint8_t> rbytes;            // stream sockets: bytes available to read now
  std::deque<uint8_t> early_tx;          // stream: bytes written before the listener accepted the connection
  bool eof = false;                      // stream: peer closed
  VSock *pair = nullptr;                 // stream: other libcoap end (lib <-> lib)
  StreamPeer *speer = nullptr;           // stream: scripted other end
  std::deque<std::pair<VSock *, StreamPeer *>> pending;  // TCP_LISTEN: connections waiting for accept
  size_t write_budget = (size_t)-1;      // stream: bytes the next send() accepts at most (write plan)
  int epfd = -1;
  uint32_t ep_events = 0;
  void *ep_ptr = nullptr;
};

class World {
 public:
  World();
  ~World();
  uint64_t now = 100000;  // ms (== coap ticks); starts away from 0 which libcoap uses as "unset"
  // time also passes while libcoap works (as it does for a real process): when set, every creep_every-th reading of the clock finds it one
  // millisecond later.  Off (0) unless a check asks for it - the checks that judge exact schedules keep the clock still inside a call.
  unsigned creep_every = 0, clock_reads = 0;
  unsigned wire_count = 0;
  std::function<FaultDecision(const Datagram &, unsigned index)> fault;  // null = deliver everything at once
  // datagram sends of the library that fail at the socket (index = count of the library's datagram sends so far); null = none ever fails
  std::function<bool(unsigned index)> send_fails;
  unsigned lib_sends = 0;
  std::vector<TraceEv> trace;
  bool record_payloads = true;
  unsigned steps = 0;
  bool hit_cap = false;

  // contexts serviced by the world loop
  void add_context(coap_context_t *ctx);
  void remove_context(coap_context_t *ctx);
  std::vector<coap_context_t *> contexts;

  // scripted peers
  Peer *add_peer(const Addr &a);
  void peer_send(Peer *p, const Addr &dst, const std::vector<uint8_t> &data, uint32_t delay = 0);
  // raw injection from an arbitrary source address (hostile traffic)
  void inject(const Addr &src, const Addr &dst, const std::vector<uint8_t> &data, uint32_t delay = 0);
  StreamPeer *add_stream_peer(const Addr &a, bool listening);
  bool stream_connect(StreamPeer *sp, const Addr &listener);   // scripted client connects to a libcoap TCP endpoint
  // bytes become readable by libcoap in the given chunks, one chunk per delivery event, gap ms apart
  void stream_send(StreamPeer *sp, const std::vector<uint8_t> &data, const std::vector<size_t> &chunks, uint32_t gap = 0);
  void stream_close(StreamPeer *sp, uint32_t delay = 0);

  // scheduled harness actions
  void at(uint64_t t, std::function<void()> fn);
  void after(uint64_t dt, std::function<void()> fn) { at(now + dt, fn); }
  void at_world(uint64_t t, std::function<void()> fn);   // an action of the world itself (not of the application under test)

  // run until nothing is pending (no datagram in flight, no action, no library timer) or until the
  // virtual horizon `until` / the step cap is reached.  Returns true when quiescent.
  bool run(uint64_t until, unsigned max_steps = 20000);
  void service_contexts();
  // a libcoap-internal blocking wait of the context that owns `epfd`: the rest of the world goes on meanwhile
  void nested_wait(int epfd, uint32_t timeout_ms);
  int nested = 0;
  void note(const std::string &s);
  void callback(const std::string &s, uint64_t val = 0);

  // -- used by the interposers --
  VSock *by_fd(int fd);
  VSock *new_sock(VSock::Kind k);
  void close_fd(int fd);
  void lib_send(VSock *vs, const Addr &src, const Addr &dst, const uint8_t *d, size_t n);
  void route(const Datagram &d);
  uint16_t next_port = 40000;
  std::map<int, std::unique_ptr<VSock>> socks;
  std::vector<std::unique_ptr<Peer>> peers;
  std::vector<std::unique_ptr<StreamPeer>> speers;
  struct Pending {
    uint64_t at;
    uint64_t seq;
    int kind;  // 0 datagram, 1 application action, 2 (unused), 3 stream eof to lib sock, 4 action of the world itself
    Datagram d;
    std::function<void()> fn;
    int fd = -1;
    std::vector<uint8_t> bytes;
    bool operator<(const Pending &o) const { return at != o.at ? at < o.at : seq < o.seq; }
  };
  std::multiset<Pending> queue;
  uint64_t seq = 0;
  bool activity = false;
  // called after the contexts were serviced for one delivered item (the application's own work between I/O steps)
  std::function<void()> idle_hook;
};

extern World *W;  // the world the interposers talk to (one at a time)

// libcoap's PRNG is fed from a tape-derived deterministic stream
// the first draws can be dictated (e.g. ff ff so that a new session's first message id is 0)
void seed_prng(uint64_t seed, const std::vector<uint8_t> &prefix = {});

// allocation table (only when coap_malloc_type & co are wrapped)
struct AllocStats {
  uint64_t requests = 0;       // malloc + realloc requests seen
  int64_t fail_at = -1;        // fail the request with this index (0-based) ; -1 = never
  int64_t fail_at2 = -1;
  uint64_t failed = 0;
  size_t largest = 0;
  std::map<void *, std::pair<int, size_t>> live;  // ptr -> (type, size)
  void *fail_site = nullptr;
  bool enabled = false;        // table is kept only while a case runs
  std::set<void *> freed;      // released since reset() and not handed out again
  unsigned double_frees = 0;
  int double_free_type = -1;
  void reset() { requests = 0; fail_at = fail_at2 = -1; failed = 0; largest = 0; live.clear(); fail_site = nullptr; freed.clear(); double_frees = 0; double_free_type = -1; }
};
extern AllocStats A;

// GnuTLS on the virtual clock
void hook_gnutls_time();

}  // namespace sim
