// Small helpers shared by the simulated-network harnesses.
#pragma once
#include "sim.h"

namespace simh {
using sim::Addr;
using sim::World;

inline std::vector<uint8_t> empty_msg(uint8_t type, uint16_t mid) {
  ref::Msg m;
  m.type = type;
  m.code = 0;
  m.mid = mid;
  return ref::encode(m, ref::F_UDP);
}
inline std::vector<uint8_t> ack(uint16_t mid) { return empty_msg(2, mid); }
inline std::vector<uint8_t> rst(uint16_t mid) { return empty_msg(3, mid); }

inline std::vector<uint8_t> response(uint8_t type, uint8_t code, uint16_t mid, const std::vector<uint8_t> &token,
                                     const std::vector<uint8_t> &payload, const std::vector<ref::Opt> &opts = {}) {
  ref::Msg m;
  m.type = type;
  m.code = code;
  m.mid = mid;
  m.token = token;
  m.opts = opts;
  m.payload = payload;
  return ref::encode(m, ref::F_UDP);
}

inline bool parse(const std::vector<uint8_t> &d, ref::Msg *m) {
  ref::DecodeResult r = ref::decode(d.data(), d.size(), ref::F_UDP, false);
  if (!r.ok) return false;
  *m = r.msg;
  return true;
}

inline std::vector<uint8_t> uint_opt(uint32_t v) {
  std::vector<uint8_t> o;
  while (v) { o.insert(o.begin(), (uint8_t)v); v >>= 8; }
  return o;
}
inline uint32_t opt_uint(const std::vector<uint8_t> &v) {
  uint32_t x = 0;
  for (uint8_t b : v) x = x << 8 | b;
  return x;
}
inline const ref::Opt *find_opt(const ref::Msg &m, uint32_t num) {
  for (auto &o : m.opts) if (o.num == num) return &o;
  return nullptr;
}

inline std::string type_name(uint8_t t) { static const char *N[] = {"CON", "NON", "ACK", "RST"}; return N[t & 3]; }

// compact one-line rendering of the wire trace (for violation messages / samples)
inline std::string render_trace(const World &w, size_t max_events = 60) {
  std::string s;
  size_t n = 0;
  for (auto &e : w.trace) {
    if (e.kind == sim::EV_WAIT) continue;
    if (n++ >= max_events) { s += " ..."; break; }
    char b[256];
    if (e.kind == sim::EV_SEND || e.kind == sim::EV_DELIVER || e.kind == sim::EV_DROP || e.kind == sim::EV_NOROUTE) {
      ref::Msg m;
      std::string what = "?";
      if (simh::parse(e.data, &m)) {
        snprintf(b, sizeof b, "%s %u.%02u mid=%u tok=%s", type_name(m.type).c_str(), m.code >> 5, m.code & 31, m.mid, verif::hex(m.token, 4).c_str());
        what = b;
      } else what = "raw[" + std::to_string(e.data.size()) + "]";
      snprintf(b, sizeof b, " @%llu %s#%u%s %s>%s {%s};", (unsigned long long)e.t,
               e.kind == sim::EV_SEND ? (e.from_lib ? "LIBTX" : "PEERTX") : e.kind == sim::EV_DELIVER ? "RX" : e.kind == sim::EV_DROP ? "LOST" : "NOROUTE",
               e.index, e.dup ? "(dup)" : "", e.src.str().c_str(), e.dst.str().c_str(), what.c_str());
      s += b;
    } else if (e.kind == sim::EV_CALLBACK || e.kind == sim::EV_NOTE) {
      snprintf(b, sizeof b, " @%llu %s;", (unsigned long long)e.t, e.note.c_str());
      s += b;
    }
  }
  return s;
}

}  // namespace simh
