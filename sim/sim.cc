// Simulation core + link-time interposers.  See sim.h.
#include "sim.h"
#include <sys/select.h>
#include <dlfcn.h>
#include <sanitizer/common_interface_defs.h>
#include <arpa/inet.h>
#include <cerrno>
#include <sys/epoll.h>
#include <sys/socket.h>
#include <sys/un.h>
#include <unistd.h>

namespace sim {

World *W = nullptr;
AllocStats A;

// ---------------------------------------------------------------- addresses
Addr Addr::v4(uint8_t a, uint8_t b, uint8_t c, uint8_t d, uint16_t port) {
  Addr x;
  x.fam = 4;
  x.ip[0] = a; x.ip[1] = b; x.ip[2] = c; x.ip[3] = d;
  x.port = port;
  return x;
}
Addr Addr::v6(const char *text, uint16_t port) {
  Addr x;
  x.fam = 6;
  inet_pton(AF_INET6, text, x.ip);
  x.port = port;
  return x;
}
Addr Addr::from_coap(const coap_address_t *a) {
  Addr x;
  if (a->addr.sa.sa_family == AF_INET6) {
    x.fam = 6;
    memcpy(x.ip, &a->addr.sin6.sin6_addr, 16);
    x.port = ntohs(a->addr.sin6.sin6_port);
  } else {
    x.fam = 4;
    memcpy(x.ip, &a->addr.sin.sin_addr, 4);
    x.port = ntohs(a->addr.sin.sin_port);
  }
  return x;
}
void Addr::to_coap(coap_address_t *out) const {
  coap_address_init(out);  // zeroes everything (libcoap compares addresses field by field / memcmp)
  if (fam == 6) {
    out->size = sizeof(struct sockaddr_in6);
    out->addr.sin6.sin6_family = AF_INET6;
    memcpy(&out->addr.sin6.sin6_addr, ip, 16);
    out->addr.sin6.sin6_port = htons(port);
  } else {
    out->size = sizeof(struct sockaddr_in);
    out->addr.sin.sin_family = AF_INET;
    memcpy(&out->addr.sin.sin_addr, ip, 4);
    out->addr.sin.sin_port = htons(port);
  }
}
bool Addr::is_any() const {
  for (int i = 0; i < 16; i++) if (ip[i]) return false;
  return true;
}
bool Addr::is_mcast() const { return fam == 4 ? (ip[0] & 0xf0) == 0xe0 : ip[0] == 0xff; }
bool Addr::operator<(const Addr &o) const {
  if (fam != o.fam) return fam < o.fam;
  int c = memcmp(ip, o.ip, 16);
  if (c) return c < 0;
  return port < o.port;
}
std::string Addr::str() const {
  char b[80], t[64];
  if (fam == 6) { inet_ntop(AF_INET6, ip, t, sizeof t); snprintf(b, sizeof b, "[%s]:%u", t, port); }
  else snprintf(b, sizeof b, "%u.%u.%u.%u:%u", ip[0], ip[1], ip[2], ip[3], port);
  return b;
}

// ---------------------------------------------------------------- world
World::World() { W = this; }
World::~World() {
  // close descriptors that libcoap did not close (should not happen after coap_free_context)
  for (auto &kv : socks) ::close(kv.first);
  if (W == this) W = nullptr;
}

void World::add_context(coap_context_t *ctx) { contexts.push_back(ctx); }
void World::remove_context(coap_context_t *ctx) {
  contexts.erase(std::remove(contexts.begin(), contexts.end(), ctx), contexts.end());
}

VSock *World::by_fd(int fd) {
  auto it = socks.find(fd);
  return it == socks.end() ? nullptr : it->second.get();
}

VSock *World::new_sock(VSock::Kind k) {
  // a real, unconnected descriptor so that libcoap's epoll_ctl()/close() act on something valid
  int fd = socket(AF_UNIX, SOCK_DGRAM, 0);
  if (fd < 0) return nullptr;
  std::unique_ptr<VSock> v(new VSock);
  v->kind = k;
  v->fd = fd;
  VSock *r = v.get();
  socks[fd] = std::move(v);
  return r;
}

void World::close_fd(int fd) {
  auto it = socks.find(fd);
  if (it == socks.end()) return;
  VSock *v = it->second.get();
  if (v->kind == VSock::TCP_CONN) {
    if (v->pair) {
      // other libcoap end sees EOF after the bytes already queued
      v->pair->pair = nullptr;
      Pending p;
      p.at = now; p.seq = seq++; p.kind = 3; p.fd = v->pair->fd;
      queue.insert(p);
    }
    if (v->speer) { v->speer->peer_closed = true; v->speer->conn = nullptr; if (v->speer->on_rx) { StreamPeer *sp = v->speer; at_world(now, [this, sp]() { if (sp->on_rx) sp->on_rx(*this, *sp); }); } }
  }
  if (v->kind == VSock::TCP_LISTEN) {
    for (auto &pc : v->pending) { if (pc.second) pc.second->peer_closed = true; }
  }
  // forget queued deliveries for this descriptor
  for (auto q = queue.begin(); q != queue.end();) {
    if ((q->kind == 2 || q->kind == 3) && q->fd == fd) q = queue.erase(q); else ++q;
  }
  for (auto &kv : socks) if (kv.second->pair == v) kv.second->pair = nullptr;
  // a connection attempt that was never accepted disappears from the listener's backlog
  for (auto &kv : socks) if (kv.second->kind == VSock::TCP_LISTEN)
    for (auto pi = kv.second->pending.begin(); pi != kv.second->pending.end();) { if (pi->first == v) pi = kv.second->pending.erase(pi); else ++pi; }
  socks.erase(it);
  activity = true;
}

Peer *World::add_peer(const Addr &a) {
  peers.emplace_back(new Peer);
  peers.back()->addr = a;
  return peers.back().get();
}

StreamPeer *World::add_stream_peer(const Addr &a, bool listening) {
  speers.emplace_back(new StreamPeer);
  speers.back()->addr = a;
  speers.back()->listening = listening;
  return speers.back().get();
}

void World::note(const std::string &s) {
  TraceEv e;
  e.t = now; e.kind = EV_NOTE; e.note = s;
  trace.push_back(e);
}
void World::callback(const std::string &s, uint64_t val) {
  TraceEv e;
  e.t = now; e.kind = EV_CALLBACK; e.note = s; e.val = val;
  trace.push_back(e);
  activity = true;
}

void World::at(uint64_t t, std::function<void()> fn) {
  Pending p;
  p.at = t < now ? now : t;
  p.seq = seq++;
  p.kind = 1;
  p.fn = fn;
  queue.insert(p);
}
// an action of the world itself (scripted peers, stream chunks) as opposed to one of the application under test: it also runs while the
// application is blocked inside a libcoap call (nested_wait)
void World::at_world(uint64_t t, std::function<void()> fn) {
  Pending p;
  p.at = t < now ? now : t;
  p.seq = seq++;
  p.kind = 4;
  p.fn = fn;
  queue.insert(p);
}

// a datagram enters the wire: apply the fault plan, enqueue deliveries
static void enqueue_datagram(World &w, Datagram d, bool from_lib, uint32_t base_delay) {
  d.sent_at = w.now;
  d.index = w.wire_count++;
  TraceEv e;
  e.t = w.now; e.kind = EV_SEND; e.src = d.src; e.dst = d.dst; e.index = d.index; e.from_lib = from_lib;
  if (w.record_payloads) e.data = d.data;
  w.trace.push_back(e);
  FaultDecision f;
  if (w.fault) f = w.fault(d, d.index);
  if (f.fate == DROP) {
    TraceEv x = e;
    x.kind = EV_DROP;
    w.trace.push_back(x);
    return;
  }
  uint64_t t = w.now + base_delay + f.delay;
  for (uint32_t c = 0; c <= f.dups; c++) {
    World::Pending p;
    p.at = t;
    p.seq = w.seq++;
    p.kind = 0;
    p.d = d;
    p.d.is_dup = c > 0;
    w.queue.insert(p);
    t += f.dup_delay;
  }
}

void World::lib_send(VSock *, const Addr &src, const Addr &dst, const uint8_t *data, size_t n) {
  Datagram d;
  d.src = src;
  d.dst = dst;
  d.data.assign(data, data + n);
  activity = true;
  enqueue_datagram(*this, d, true, 0);
}

void World::peer_send(Peer *p, const Addr &dst, const std::vector<uint8_t> &data, uint32_t delay) {
  Datagram d;
  d.src = p->addr;
  d.dst = dst;
  d.data = data;
  enqueue_datagram(*this, d, false, delay);
}

void World::inject(const Addr &src, const Addr &dst, const std::vector<uint8_t> &data, uint32_t delay) {
  Datagram d;
  d.src = src;
  d.dst = dst;
  d.data = data;
  enqueue_datagram(*this, d, false, delay);
}

void World::route(const Datagram &d) {
  TraceEv e;
  e.t = now; e.kind = EV_DELIVER; e.src = d.src; e.dst = d.dst; e.index = d.index; e.dup = d.is_dup;
  if (record_payloads) e.data = d.data;
  // 1. connected libcoap socket with exactly this 4-tuple
  for (auto &kv : socks) {
    VSock *v = kv.second.get();
    if (v->kind == VSock::UDP_CONN && v->local == d.dst && v->remote == d.src) { v->rxq.push_back(d); trace.push_back(e); activity = true; return; }
  }
  // 1b. multicast client socket (unconnected): replies come from any unicast source
  for (auto &kv : socks) {
    VSock *v = kv.second.get();
    if (v->kind == VSock::UDP_CONN && v->remote.is_mcast() && v->local.port == d.dst.port) { v->rxq.push_back(d); trace.push_back(e); activity = true; return; }
  }
  // 2. bound libcoap socket on that port (exact address, wildcard, or multicast group member)
  for (auto &kv : socks) {
    VSock *v = kv.second.get();
    if (v->kind != VSock::UDP_BOUND || v->local.port != d.dst.port || v->local.fam != d.dst.fam) continue;
    if (v->local.same_ip(d.dst) || v->local.is_any() || (d.dst.is_mcast() && v->mcast_member)) { v->rxq.push_back(d); trace.push_back(e); activity = true; return; }
  }
  // 3. scripted peer
  for (auto &p : peers) {
    if (p->addr == d.dst) {
      trace.push_back(e);
      p->inbox.push_back(d);
      activity = true;
      if (p->on_rx) p->on_rx(*this, *p, d);
      return;
    }
  }
  e.kind = EV_NOROUTE;
  trace.push_back(e);
}

bool World::stream_connect(StreamPeer *sp, const Addr &listener) {
  for (auto &kv : socks) {
    VSock *v = kv.second.get();
    if (v->kind == VSock::TCP_LISTEN && v->local.port == listener.port) {
      v->pending.push_back({nullptr, sp});
      activity = true;
      return true;
    }
  }
  return false;
}

void World::stream_send(StreamPeer *sp, const std::vector<uint8_t> &data, const std::vector<size_t> &chunks, uint32_t gap) {
  size_t off = 0;
  uint64_t t = now;
  size_t ci = 0;
  while (off < data.size()) {
    size_t n = ci < chunks.size() ? chunks[ci] : data.size() - off;
    ci++;
    if (n == 0) n = 1;
    if (n > data.size() - off) n = data.size() - off;
    Pending p;
    p.at = t; p.seq = seq++; p.kind = 4;  // resolved to the connection at delivery time
    p.bytes.assign(data.begin() + off, data.begin() + off + n);
    StreamPeer *spp = sp;
    p.fn = nullptr;
    p.fd = -2;
    // deliver through an action so that a connection accepted later is still found
    std::vector<uint8_t> b = p.bytes;
    at_world(t, [this, spp, b]() {
      if (!spp->conn) { if (!spp->accepted && !spp->early_close) spp->early.insert(spp->early.end(), b.begin(), b.end()); return; }
      VSock *v = spp->conn;
      v->rbytes.insert(v->rbytes.end(), b.begin(), b.end());
      TraceEv e;
      e.t = now; e.kind = EV_STREAM_RX; e.val = b.size();
      if (record_payloads) e.data = b;
      trace.push_back(e);
      activity = true;
    });
    off += n;
    t += gap;
  }
}

void World::stream_close(StreamPeer *sp, uint32_t delay) {
  at_world(now + delay, [this, sp]() {
    if (!sp->conn) { if (!sp->accepted) sp->early_close = true; return; }
    sp->conn->eof = true;
    activity = true;
  });
}

void World::service_contexts() {
  // run every context's I/O step while something is readable for it
  for (unsigned round = 0; round < 2000; round++) {
    activity = false;
    std::vector<coap_context_t *> cs = contexts;  // a callback may add/remove contexts
    for (coap_context_t *c : cs) {
      if (std::find(contexts.begin(), contexts.end(), c) == contexts.end()) continue;
      coap_io_process(c, COAP_IO_NO_WAIT);
    }
    bool readable = false;
    for (auto &kv : socks) {
      VSock *v = kv.second.get();
      if (v->epfd < 0) continue;
      if (!v->rxq.empty() || !v->rbytes.empty() || v->eof || !v->pending.empty()) {
        if (v->ep_events & EPOLLIN) readable = true;
      }
    }
    if (!activity && !readable) return;
    if (!activity && readable && round > 50) return;  // data nobody reads (socket not in WANT_READ state)
  }
  hit_cap = true;
}

void World::nested_wait(int epfd, uint32_t timeout_ms) {
  uint64_t deadline = now + timeout_ms;
  nested++;
  for (unsigned guard = 0; guard < 100000; guard++) {
    bool readable = false;
    for (auto &kv : socks) {
      VSock *v = kv.second.get();
      if (v->epfd != epfd) continue;
      if ((v->ep_events & EPOLLIN) && (!v->rxq.empty() || !v->rbytes.empty() || v->eof || !v->pending.empty())) readable = true;
    }
    if (readable) break;
    // the application is blocked in a libcoap call: its own scheduled actions (kind 1) stay queued until that call returns
    uint64_t next = UINT64_MAX;
    for (auto &q : queue) if (q.kind != 1) { next = q.at; break; }
    for (coap_context_t *c : contexts) {
      if (c->epfd == epfd) continue;
      unsigned wt = coap_io_prepare_epoll(c, (coap_tick_t)now);
      if (wt) next = std::min<uint64_t>(next, now + wt);
    }
    if (next > deadline) { now = deadline; break; }
    if (next > now) now = next;
    for (bool again = true; again;) {
      again = false;
      for (auto qi = queue.begin(); qi != queue.end() && qi->at <= now; ++qi) {
        if (qi->kind == 1) continue;
        Pending p = *qi;
        queue.erase(qi);
        if (p.kind == 0) route(p.d);
        else if (p.kind == 4) { if (p.fn) p.fn(); }
        else if (p.kind == 3) { VSock *v = by_fd(p.fd); if (v) { v->eof = true; activity = true; } }
        again = true;
        break;
      }
    }
    std::vector<coap_context_t *> cs = contexts;
    for (coap_context_t *c : cs) {
      if (std::find(contexts.begin(), contexts.end(), c) == contexts.end() || c->epfd == epfd) continue;
      coap_io_process(c, COAP_IO_NO_WAIT);
    }
    if (++steps > 4000000) { hit_cap = true; break; }
  }
  nested--;
}

bool World::run(uint64_t until, unsigned max_steps) {
  while (true) {
    if (++steps > max_steps) { hit_cap = true; return false; }
    // deliver / execute everything due now, one item at a time, servicing the contexts in between
    bool did = false;
    while (!queue.empty() && queue.begin()->at <= now) {
      Pending p = *queue.begin();
      queue.erase(queue.begin());
      if (p.kind == 0) route(p.d);
      else if (p.kind == 1 || p.kind == 4) { if (p.fn) p.fn(); }
      else if (p.kind == 3) { VSock *v = by_fd(p.fd); if (v) { v->eof = true; activity = true; } }
      service_contexts();
      if (idle_hook) idle_hook();
      did = true;
      if (++steps > max_steps) { hit_cap = true; return false; }
    }
    if (!did) service_contexts();
    if (!queue.empty() && queue.begin()->at <= now) continue;
    // next wake-up: earliest queued item or the earliest time a context asks to be called again
    uint64_t next = UINT64_MAX;
    if (!queue.empty()) next = queue.begin()->at;
    for (coap_context_t *c : contexts) {
      unsigned w = coap_io_prepare_epoll(c, (coap_tick_t)now);
      TraceEv e;
      e.t = now; e.kind = EV_WAIT; e.val = w; e.note = "wait";
      trace.push_back(e);
      if (w) next = std::min<uint64_t>(next, now + w);
    }
    if (!queue.empty() && queue.begin()->at <= now) continue;  // prepare may have sent something
    if (next == UINT64_MAX) return true;                       // quiescent
    if (next > until) { if (until > now) now = until; return false; }
    now = next > now ? next : now + 1;
  }
}

// ---------------------------------------------------------------- PRNG
static uint64_t g_prng_state = 0x9E3779B97F4A7C15ull;
static std::vector<uint8_t> g_prng_prefix;
static size_t g_prng_prefix_pos = 0;
static int prng_fn(void *buf, size_t len) {
  uint8_t *b = (uint8_t *)buf;
  for (size_t i = 0; i < len; i++) {
    if (g_prng_prefix_pos < g_prng_prefix.size()) { b[i] = g_prng_prefix[g_prng_prefix_pos++]; continue; }
    g_prng_state ^= g_prng_state << 13;
    g_prng_state ^= g_prng_state >> 7;
    g_prng_state ^= g_prng_state << 17;
    b[i] = (uint8_t)(g_prng_state >> 24);
  }
  return 1;
}
void seed_prng(uint64_t seed, const std::vector<uint8_t> &prefix) {
  g_prng_prefix = prefix;
  g_prng_prefix_pos = 0;
  g_prng_state = seed * 0x9E3779B97F4A7C15ull + 0x1234567ull;
  if (!g_prng_state) g_prng_state = 1;
  coap_set_prng(prng_fn);
}

}  // namespace sim

// ======================================================================== interposers (C linkage)
using namespace sim;

extern "C" {

void __real_coap_ticks(coap_tick_t *t);
void __wrap_coap_ticks(coap_tick_t *t) {
  if (W) {
    if (W->creep_every && ++W->clock_reads % W->creep_every == 0) W->now++;
    *t = (coap_tick_t)W->now;
  } else __real_coap_ticks(t);
}

// select(): libcoap waits a few milliseconds for the peer's WebSocket Close inside coap_ws_close().  For virtual sockets the answer is
// what is readable at this instant (no waiting: virtual time does not move inside such a wait).  Linked only where a check asks for it.
static int real_select(int nfds, fd_set *r, fd_set *wr, fd_set *ex, struct timeval *tv) {
  // (not __real_select: this file is also linked into checks that do not wrap select())
  typedef int (*fn_t)(int, fd_set *, fd_set *, fd_set *, struct timeval *);
  static fn_t fn = (fn_t)dlsym(RTLD_NEXT, "select");
  return fn(nfds, r, wr, ex, tv);
}
int __wrap_select(int nfds, fd_set *r, fd_set *wr, fd_set *ex, struct timeval *tv) {
  if (!W || !r) return real_select(nfds, r, wr, ex, tv);
  bool any_virtual = false;
  int ready = 0;
  fd_set out;
  FD_ZERO(&out);
  for (int fd = 0; fd < nfds && fd < FD_SETSIZE; fd++) {
    if (!FD_ISSET(fd, r)) continue;
    VSock *v = W->by_fd(fd);
    if (!v) continue;
    any_virtual = true;
    if (!v->rbytes.empty() || !v->rxq.empty() || v->eof || !v->pending.empty()) { FD_SET(fd, &out); ready++; }
  }
  if (!any_virtual) return real_select(nfds, r, wr, ex, tv);
  *r = out;
  if (wr) FD_ZERO(wr);
  if (ex) FD_ZERO(ex);
  return ready;
}

int __real_close(int fd);
int __wrap_close(int fd) {
  if (W && W->by_fd(fd)) W->close_fd(fd);
  return __real_close(fd);
}

int __real_epoll_ctl(int epfd, int op, int fd, struct epoll_event *ev);
int __wrap_epoll_ctl(int epfd, int op, int fd, struct epoll_event *ev) {
  if (W) {
    VSock *v = W->by_fd(fd);
    if (v) {
      if (op == EPOLL_CTL_DEL) { v->epfd = -1; v->ep_events = 0; }
      else { v->epfd = epfd; v->ep_events = ev->events; v->ep_ptr = ev->data.ptr; }
    }
  }
  return __real_epoll_ctl(epfd, op, fd, ev);
}

int __real_epoll_wait(int epfd, struct epoll_event *events, int maxevents, int timeout);
int __wrap_epoll_wait(int epfd, struct epoll_event *events, int maxevents, int timeout) {
  if (!W) return __real_epoll_wait(epfd, events, maxevents, timeout);
  int n = 0;
  for (auto &kv : W->socks) {
    VSock *v = kv.second.get();
    if (v->epfd != epfd || n >= maxevents) continue;
    uint32_t ev = 0;
    bool readable = !v->rxq.empty() || !v->rbytes.empty() || v->eof || !v->pending.empty();
    if ((v->ep_events & EPOLLIN) && readable) ev |= EPOLLIN;
    if ((v->ep_events & EPOLLOUT) && (v->kind == VSock::TCP_CONN || v->kind == VSock::UDP_CONN || v->kind == VSock::UDP_BOUND)) ev |= EPOLLOUT;
    if (ev) {
      events[n].events = ev;
      events[n].data.ptr = v->ep_ptr;
      n++;
    }
  }
  // timeout > 0 is only reached from libcoap-internal blocking waits (e.g. coap_client_delay_first() inside coap_send()): the caller
  // sleeps, the rest of the world goes on - deliveries, the other contexts, virtual time - until something is readable here or the
  // time is up
  if (n == 0 && timeout > 0 && W->nested == 0) {
    W->nested_wait(epfd, (uint32_t)timeout);
    for (auto &kv : W->socks) {
      VSock *v = kv.second.get();
      if (v->epfd != epfd || n >= maxevents) continue;
      uint32_t ev = 0;
      bool readable = !v->rxq.empty() || !v->rbytes.empty() || v->eof || !v->pending.empty();
      if ((v->ep_events & EPOLLIN) && readable) ev |= EPOLLIN;
      if ((v->ep_events & EPOLLOUT) && (v->kind == VSock::TCP_CONN || v->kind == VSock::UDP_CONN || v->kind == VSock::UDP_BOUND)) ev |= EPOLLOUT;
      if (ev) { events[n].events = ev; events[n].data.ptr = v->ep_ptr; n++; }
    }
  }
  return n;
}

// ---- datagram sockets ---------------------------------------------------------------------
int __wrap_coap_socket_bind_udp(coap_socket_t *sock, const coap_address_t *listen_addr, coap_address_t *bound_addr) {
  VSock *v = W->new_sock(VSock::UDP_BOUND);
  if (!v) return 0;
  v->local = Addr::from_coap(listen_addr);
  if (v->local.port == 0) v->local.port = W->next_port++;
  v->mcast_member = true;  // group membership is not modelled separately: a bound socket receives the groups on its port
  sock->fd = v->fd;
  v->local.to_coap(bound_addr);
  return 1;
}

int __wrap_coap_socket_connect_udp(coap_socket_t *sock, const coap_address_t *local_if, const coap_address_t *server,
                                   int default_port, coap_address_t *local_addr, coap_address_t *remote_addr) {
  VSock *v = W->new_sock(VSock::UDP_CONN);
  if (!v) return 0;
  sock->flags &= ~(COAP_SOCKET_CONNECTED | COAP_SOCKET_MULTICAST);
  v->remote = Addr::from_coap(server);
  if (v->remote.port == 0) v->remote.port = (uint16_t)default_port;
  if (local_if && local_if->addr.sa.sa_family) v->local = Addr::from_coap(local_if);
  else {
    // the client's own address: fixed per family, port from the counter
    v->local = v->remote.fam == 6 ? Addr::v6("2001:db8::c", 0) : Addr::v4(10, 0, 0, 2, 0);
  }
  if (v->local.port == 0) v->local.port = W->next_port++;
  sock->fd = v->fd;
  v->local.to_coap(local_addr);
  v->remote.to_coap(remote_addr);
  if (v->remote.is_mcast()) {
    coap_address_copy(&sock->mcast_addr, remote_addr);
    sock->flags |= COAP_SOCKET_MULTICAST;
    return 1;
  }
  sock->flags |= COAP_SOCKET_CONNECTED;
  return 1;
}

ssize_t __wrap_coap_socket_send(coap_socket_t *sock, coap_session_t *session, const uint8_t *data, size_t datalen) {
  VSock *v = W->by_fd(sock->fd);
  if (!v) { errno = EBADF; return -1; }
  { static const char *bt = getenv("SIM_BT_LEN"); if (bt && (size_t)atoi(bt) == datalen) __sanitizer_print_stack_trace(); }  // triage aid
  Addr dst = Addr::from_coap(&session->addr_info.remote);
  Addr src;
  if (v->kind == VSock::UDP_CONN) src = v->local;
  else {
    // endpoint socket: the session's local address (the address the request was sent to), but never a group address
    src = Addr::from_coap(&session->addr_info.local);
    if (src.is_mcast() || src.is_any()) { Addr l = v->local; if (l.is_any()) l = l.fam == 6 ? Addr::v6("2001:db8::1", l.port) : Addr::v4(10, 0, 0, 1, l.port); src = l; }
    src.port = v->local.port;
  }
  // a send that fails (the kernel has no buffer space at this moment): nothing goes on the wire, the caller sees -1 / ENOBUFS.  The attempt is kept in
  // the trace as a transmission by the library that never left the host (EV_SEND with the note below, no delivery)
  if (W->send_fails && W->send_fails(W->lib_sends++)) {
    TraceEv e;
    e.t = W->now; e.kind = EV_SEND; e.src = src; e.dst = dst; e.data.assign(data, data + datalen); e.from_lib = true; e.note = "socket send failed (ENOBUFS)";
    W->trace.push_back(e);
    errno = ENOBUFS;
    return -1;
  }
  W->lib_send(v, src, dst, data, datalen);
  return (ssize_t)datalen;
}

ssize_t __wrap_coap_socket_recv(coap_socket_t *sock, coap_packet_t *packet) {
  if ((sock->flags & COAP_SOCKET_CAN_READ) == 0) return -1;
  sock->flags &= ~COAP_SOCKET_CAN_READ;
  VSock *v = W->by_fd(sock->fd);
  if (!v || v->rxq.empty()) { errno = EAGAIN; return -1; }
  Datagram d = v->rxq.front();
  v->rxq.pop_front();
  size_t n = d.data.size();
  if (n > COAP_RXBUFFER_SIZE) n = COAP_RXBUFFER_SIZE;  // recvmsg truncates
  if (n) memcpy(packet->payload, d.data.data(), n);
  packet->length = n;
  if (!(sock->flags & COAP_SOCKET_CONNECTED)) {
    d.src.to_coap(&packet->addr_info.remote);
    d.dst.to_coap(&packet->addr_info.local);
    packet->ifindex = 1;
  }
  {
    TraceEv e;
    e.t = W->now; e.kind = EV_READ; e.src = d.src; e.dst = d.dst; e.index = d.index; e.dup = d.is_dup;
    if (W->record_payloads) e.data = d.data;
    W->trace.push_back(e);
  }
  W->activity = true;
  return (ssize_t)n;
}

// ---- stream sockets ---------------------------------------------------------------------------
int __wrap_coap_socket_bind_tcp(coap_socket_t *sock, const coap_address_t *listen_addr, coap_address_t *bound_addr) {
  VSock *v = W->new_sock(VSock::TCP_LISTEN);
  if (!v) return 0;
  v->local = Addr::from_coap(listen_addr);
  if (v->local.port == 0) v->local.port = W->next_port++;
  sock->fd = v->fd;
  v->local.to_coap(bound_addr);
  return 1;
}

int __wrap_coap_socket_connect_tcp1(coap_socket_t *sock, const coap_address_t *local_if, const coap_address_t *server,
                                    int default_port, coap_address_t *local_addr, coap_address_t *remote_addr) {
  sock->flags &= ~COAP_SOCKET_CONNECTED;
  Addr remote = Addr::from_coap(server);
  if (remote.port == 0) remote.port = (uint16_t)default_port;
  // find a listener: libcoap endpoint or scripted stream peer
  VSock *lst = nullptr;
  StreamPeer *sp = nullptr;
  for (auto &kv : W->socks) if (kv.second->kind == VSock::TCP_LISTEN && kv.second->local.port == remote.port) lst = kv.second.get();
  for (auto &p : W->speers) if (p->listening && p->addr == remote && !p->conn) sp = p.get();
  if (!lst && !sp) { errno = ECONNREFUSED; return 0; }
  VSock *v = W->new_sock(VSock::TCP_CONN);
  if (!v) return 0;
  v->remote = remote;
  if (local_if && local_if->addr.sa.sa_family) v->local = Addr::from_coap(local_if);
  else v->local = remote.fam == 6 ? Addr::v6("2001:db8::c", 0) : Addr::v4(10, 0, 0, 2, 0);
  if (v->local.port == 0) v->local.port = W->next_port++;
  sock->fd = v->fd;
  v->local.to_coap(local_addr);
  v->remote.to_coap(remote_addr);
  if (sp) {
    v->speer = sp;
    sp->conn = v;
    if (sp->on_connect) { StreamPeer *spp = sp; W->at_world(W->now, [spp]() { if (spp->on_connect) spp->on_connect(*W, *spp); }); }
  } else {
    lst->pending.push_back({v, nullptr});
  }
  // non-blocking connect in progress: completion is signalled through EPOLLOUT on the next I/O step
  // (as with a real socket, this gives the application time to configure the session, e.g. the WebSocket host)
  sock->flags |= COAP_SOCKET_WANT_CONNECT | COAP_SOCKET_CONNECTED;
  W->activity = true;
  return 1;
}

int __wrap_coap_socket_connect_tcp2(coap_socket_t *sock, coap_address_t *local_addr, coap_address_t *remote_addr) {
  sock->flags &= ~(COAP_SOCKET_WANT_CONNECT | COAP_SOCKET_CAN_CONNECT);
  VSock *v = W->by_fd(sock->fd);
  if (!v) return 0;
  v->local.to_coap(local_addr);
  v->remote.to_coap(remote_addr);
  return 1;
}

int __wrap_coap_socket_accept_tcp(coap_socket_t *server, coap_socket_t *new_client, coap_address_t *local_addr,
                                  coap_address_t *remote_addr, void *extra) {
  (void)extra;
  server->flags &= ~COAP_SOCKET_CAN_ACCEPT;
  VSock *l = W->by_fd(server->fd);
  if (!l || l->pending.empty()) { errno = EAGAIN; return 0; }
  auto pc = l->pending.front();
  l->pending.pop_front();
  VSock *v = W->new_sock(VSock::TCP_CONN);
  if (!v) return 0;
  v->local = l->local;
  if (v->local.is_any()) v->local = v->local.fam == 6 ? Addr::v6("2001:db8::1", l->local.port) : Addr::v4(10, 0, 0, 1, l->local.port);
  if (pc.first) {
    v->remote = pc.first->local;
    v->pair = pc.first;
    pc.first->pair = v;
    v->rbytes.insert(v->rbytes.end(), pc.first->early_tx.begin(), pc.first->early_tx.end());
    pc.first->early_tx.clear();
  } else {
    v->remote = pc.second->addr;
    v->speer = pc.second;
    pc.second->conn = v;
    pc.second->accepted = true;
    if (!pc.second->early.empty()) {
      v->rbytes.insert(v->rbytes.end(), pc.second->early.begin(), pc.second->early.end());
      TraceEv e;
      e.t = W->now; e.kind = EV_STREAM_RX; e.val = pc.second->early.size();
      if (W->record_payloads) e.data = pc.second->early;
      W->trace.push_back(e);
      pc.second->early.clear();
    }
    if (pc.second->early_close) v->eof = true;
    if (pc.second->on_connect) { StreamPeer *spp = pc.second; W->at_world(W->now, [spp]() { if (spp->on_connect) spp->on_connect(*W, *spp); }); }
  }
  new_client->fd = v->fd;
  v->local.to_coap(local_addr);
  v->remote.to_coap(remote_addr);
  W->activity = true;
  return 1;
}

ssize_t __real_recv(int fd, void *buf, size_t len, int flags);
ssize_t __wrap_recv(int fd, void *buf, size_t len, int flags) {
  VSock *v = W ? W->by_fd(fd) : nullptr;
  if (!v || v->kind != VSock::TCP_CONN) return __real_recv(fd, buf, len, flags);
  if (v->rbytes.empty()) {
    if (v->eof) return 0;
    errno = EAGAIN;
    return -1;
  }
  size_t n = std::min(len, v->rbytes.size());
  for (size_t i = 0; i < n; i++) { ((uint8_t *)buf)[i] = v->rbytes.front(); v->rbytes.pop_front(); }
  W->activity = true;
  return (ssize_t)n;
}

ssize_t __real_send(int fd, const void *buf, size_t len, int flags);
ssize_t __wrap_send(int fd, const void *buf, size_t len, int flags) {
  VSock *v = W ? W->by_fd(fd) : nullptr;
  if (!v || v->kind != VSock::TCP_CONN) return __real_send(fd, buf, len, flags);
  if (!v->pair && !v->speer) {
    // connected but not accepted yet: like the kernel, keep the bytes until the listener takes the connection
    bool in_backlog = false;
    for (auto &kv : W->socks) if (kv.second->kind == VSock::TCP_LISTEN) for (auto &pc : kv.second->pending) if (pc.first == v) in_backlog = true;
    if (!in_backlog) { errno = EPIPE; return -1; }
    const uint8_t *eb = (const uint8_t *)buf;
    TraceEv ee;
    ee.t = W->now; ee.kind = EV_STREAM_TX; ee.src = v->local; ee.dst = v->remote; ee.val = len;
    if (W->record_payloads) ee.data.assign(eb, eb + len);
    W->trace.push_back(ee);
    v->early_tx.insert(v->early_tx.end(), eb, eb + len);
    W->activity = true;
    return (ssize_t)len;
  }
  size_t n = std::min(len, v->write_budget);
  if (n == 0 && len) { v->write_budget = (size_t)-1; errno = EAGAIN; return -1; }
  if (v->write_budget != (size_t)-1) v->write_budget = (size_t)-1;  // one-shot plan
  const uint8_t *b = (const uint8_t *)buf;
  TraceEv e;
  e.t = W->now; e.kind = EV_STREAM_TX; e.src = v->local; e.dst = v->remote; e.val = n;
  if (W->record_payloads) e.data.assign(b, b + n);
  W->trace.push_back(e);
  if (v->pair) v->pair->rbytes.insert(v->pair->rbytes.end(), b, b + n);
  else {
    v->speer->rx.insert(v->speer->rx.end(), b, b + n);
    if (v->speer->on_rx) { StreamPeer *sp = v->speer; W->at_world(W->now, [sp]() { if (sp->on_rx) sp->on_rx(*W, *sp); }); }
  }
  W->activity = true;
  return (ssize_t)n;
}

}  // extern "C"
