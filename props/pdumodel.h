// Abstract (token, ordered option list, payload) model of a coap_pdu_t and the generators /
// comparison helpers shared by C01 (build + round trip) and C04 (in-place edits).
#pragma once
#include "lc.h"

namespace pm {
using verif::Tape;
using verif::Info;

static const uint16_t REGISTERED[] = {1, 3, 4, 5, 6, 7, 8, 9, 11, 12, 14, 15, 16, 17, 19, 20, 23, 27, 28, 31, 35, 39, 60, 252, 258, 292};

inline bool non_repeatable(uint32_t n) {
  switch (n) {
  case 3: case 5: case 6: case 7: case 9: case 12: case 14: case 16: case 17: case 23: case 27: case 28:
  case 35: case 39: case 60: case 252: case 258:
    return true;
  default:
    return false;
  }
}

struct Model {
  ref::Msg m;
  size_t max_size = 0;  // 0 = unbounded
  // bytes after the fixed header as libcoap counts them (ext token length + token + options + marker + payload)
  size_t used() const {
    size_t tl = m.token.size();
    size_t s = tl + (tl < 13 ? 0 : tl < 269 ? 1 : 2);
    uint32_t prev = 0;
    for (auto &o : m.opts) { s += ref::opt_size(o.num - prev, o.val.size()); prev = o.num; }
    if (!m.payload.empty()) s += 1 + m.payload.size();
    return s;
  }
  uint32_t max_opt() const { return m.opts.empty() ? 0 : m.opts.back().num; }
  bool has(uint32_t n) const { for (auto &o : m.opts) if (o.num == n) return true; return false; }
  // insert keeping ascending order, after every option whose number is <= n
  size_t insert(uint32_t n, const std::vector<uint8_t> &v) {
    size_t i = 0;
    while (i < m.opts.size() && m.opts[i].num <= n) i++;
    m.opts.insert(m.opts.begin() + i, ref::Opt{n, v});
    return i;
  }
  int first(uint32_t n) const { for (size_t i = 0; i < m.opts.size(); i++) if (m.opts[i].num == n) return (int)i; return -1; }
  // size the message would have after inserting (n, len)
  size_t used_after_insert(uint32_t n, size_t len) const {
    Model c = *this;
    c.insert(n, std::vector<uint8_t>(len));
    return c.used();
  }
};

// ---- generators -------------------------------------------------------------------------
inline size_t gen_token_len(Tape &t, bool allow_huge) {
  switch (t.pick({8, 4, 3, 3, 2, 2, 1, 1})) {
  case 0: return t.range(0, 8);
  case 1: return 0;
  case 2: return t.range(9, 12);
  case 3: return 13 + t.range(0, 2);
  case 4: return t.range(14, 268);
  case 5: return 269 + t.range(0, 2);
  case 6: return t.range(270, 1000);
  default: return allow_huge ? 65804 - t.range(0, 2) : t.range(250, 300);
  }
}

inline size_t gen_val_len(Tape &t, uint32_t num, bool respect_limits) {
  ref::Limit l;
  if (respect_limits && ref::base_limit(num, &l)) {
    switch (t.pick({4, 2, 2})) {
    case 0: return t.range(l.lo, l.hi > l.lo + 12 ? l.lo + 12 : l.hi);
    case 1: return l.lo;
    default: return l.hi;
    }
  }
  switch (t.pick({10, 3, 3, 3, 2, 2, 1, 1})) {
  case 0: return t.range(0, 12);
  case 1: return 12 + t.range(0, 2);
  case 2: return t.range(14, 267);
  case 3: return 268 + t.range(0, 2);
  case 4: return t.range(271, 1034);
  case 5: return 0;
  case 6: return 65535 + t.range(0, 2);   // 2-byte extension nearly exhausted
  default: return 65535 + 269 - t.range(0, 1);  // largest encodable length
  }
}

// option number relative to the current option list: registered, arbitrary, or aimed so that the
// delta to a neighbour crosses the 13 / 269 thresholds
inline uint32_t gen_opt_num(Tape &t, const Model &md) {
  switch (t.pick({6, 3, 4, 2, 1})) {
  case 0: return t.choose(REGISTERED);
  case 1: return t.range(0, 65535);
  case 2: {
    if (md.m.opts.empty()) return t.range(0, 600);
    uint32_t base = md.m.opts[t.range(0, (uint32_t)md.m.opts.size() - 1)].num;
    static const int OFF[] = {0, 1, -1, 12, 13, 14, -12, -13, -14, 268, 269, 270, -268, -269, -270, 2, -2};
    int64_t v = (int64_t)base + t.choose(OFF);
    if (v < 0) v = 0;
    if (v > 65535) v = 65535;
    return (uint32_t)v;
  }
  case 3: return t.range(0, 40);
  default: return 65535 - t.range(0, 2);
  }
}

inline uint8_t gen_code(Tape &t, bool reliable) {
  switch (t.pick({6, 4, 2, 1})) {
  case 0: return (uint8_t)t.range(1, 7);
  case 1: { static const uint8_t rc[] = {0x41, 0x42, 0x43, 0x44, 0x45, 0x5f, 0x80, 0x84, 0x85, 0x8c, 0xa0, 0xa5}; return t.choose(rc); }
  case 2: return reliable ? (uint8_t)(0xE0 + t.range(1, 5)) : (uint8_t)t.range(1, 31);
  default: { uint8_t c = t.u8(); return c ? c : 1; }
  }
}

// ---- comparison helpers ----------------------------------------------------------------------
// accessor dump == model ?
inline bool check_dump(const coap_pdu_t *pdu, const Model &md, bool datagram, Info *info, const char *when) {
  ref::Msg d = lc::dump(pdu);
  std::string df = lc::diff(d, md.m, datagram);
  if (!df.empty()) {
    info->fail("%s: accessors differ from model: %s [lib: %s] [model: %s]", when, df.c_str(), lc::render(d).c_str(), lc::render(md.m).c_str());
    return false;
  }
  if (md.max_size && pdu->used_size > md.max_size) {
    info->fail("%s: used_size %zu exceeds the PDU's maximum size %zu", when, pdu->used_size, md.max_size);
    return false;
  }
  if (pdu->used_size != md.used()) {
    info->fail("%s: used_size %zu but the model encodes to %zu bytes", when, pdu->used_size, md.used());
    return false;
  }
  return true;
}

// serialise for framing f and compare (1) bytes with the reference encoder, (2) reference decoder,
// (3) libcoap's own parser on a fresh PDU
inline bool check_wire(coap_pdu_t *pdu, Model &md, ref::Framing f, Info *info, const char *when) {
  coap_proto_t proto = lc::proto_of(f);
  // RFC 8323 messages have no type: coap_pdu_encode_header() normalises the in-memory type to CON
  if (f != ref::F_UDP) md.m.type = 0;
  Model exp = md;
  if (f != ref::F_UDP) exp.m.mid = 0;
  size_t hs = coap_pdu_encode_header(pdu, proto);
  if (hs == 0) { info->fail("%s: coap_pdu_encode_header failed", when); return false; }
  const uint8_t *wire = pdu->token - hs;
  size_t wl = hs + pdu->used_size;
  std::vector<uint8_t> want = ref::encode(exp.m, f);
  if (want.size() != wl || memcmp(want.data(), wire, wl) != 0) {
    size_t i = 0;
    while (i < wl && i < want.size() && want[i] == wire[i]) i++;
    info->fail("%s: serialised bytes differ from the reference encoding at offset %zu (lib %zu bytes, ref %zu bytes) lib=%s ref=%s", when, i, wl, want.size(),
               verif::hex(wire + (i > 8 ? i - 8 : 0), wl - (i > 8 ? i - 8 : 0), 24).c_str(), verif::hex(want.data() + (i > 8 ? i - 8 : 0), want.size() - (i > 8 ? i - 8 : 0), 24).c_str());
    return false;
  }
  ref::DecodeResult rr = ref::decode(wire, wl, f, false);
  if (!rr.ok) { info->fail("%s: serialised bytes are not well-formed: %s", when, rr.why); return false; }
  std::string df = lc::diff(rr.msg, exp.m, f == ref::F_UDP);
  if (!df.empty()) { info->fail("%s: reference decoding differs from model: %s", when, df.c_str()); return false; }
  // a stream transport has to find the end of the message first: de-frame the way coap_read_session() does (fixed header + token
  // length extension bytes -> coap_pdu_parse_size()), the result must be exactly this serialisation
  if (f == ref::F_TCP) {
    size_t h = coap_pdu_parse_header_size(proto, wire);
    size_t tkl = wire[0] & 0x0f;
    size_t te = tkl == COAP_TOKEN_EXT_1B_TKL ? 1 : tkl == COAP_TOKEN_EXT_2B_TKL ? 2 : 0;
    if (h != hs || h + te > wl) { info->fail("%s: coap_pdu_parse_header_size() says %zu, the header written has %zu bytes", when, h, hs); return false; }
    size_t sz = coap_pdu_parse_size(proto, wire, h + te);
    if (h + sz != wl) { info->fail("%s: stream de-framing computes a message of %zu+%zu bytes, the serialisation has %zu", when, h, sz, wl); return false; }
  }
  // libcoap's parser on an exact-size copy
  uint8_t *exact = (uint8_t *)malloc(wl);
  memcpy(exact, wire, wl);
  coap_pdu_t *p2 = coap_pdu_init((coap_pdu_type_t)0, (coap_pdu_code_t)0, 0, 0);
  bool ok = true;
  // only messages whose options respect the length table are guaranteed to be accepted by the parser
  bool limits = ref::decode(wire, wl, f, true).ok;
  int r = coap_pdu_parse(proto, exact, wl, p2);
  if (!r && limits) { info->fail("%s: coap_pdu_parse rejects libcoap's own serialisation", when); ok = false; }
  if (r) {
    ref::Msg d = lc::dump(p2);
    df = lc::diff(d, exp.m, f == ref::F_UDP);
    if (!df.empty()) { info->fail("%s: re-parsed message differs from model: %s", when, df.c_str()); ok = false; }
  }
  coap_delete_pdu(p2);
  free(exact);
  return ok;
}

}  // namespace pm
