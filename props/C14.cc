// C14 — OSCORE protection round-trips, matches RFC 8613, and any tampering is rejected.
// Differential testing of libcoap against ref/refoscore.h (independent RFC 8613 implementation on OpenSSL) in all four directions:
//   (A) libcoap client protects a request -> reference unprotects and compares; reference protects the response -> libcoap client unprotects
//   (B) reference protects a request -> libcoap server unprotects; libcoap server protects the response -> reference unprotects and compares
// plus tamper sweeps (bit flips / truncations of OSCORE option value and ciphertext, foreign contexts) in both directions.
#include "../sim/helpers.h"
#include "../ref/refoscore.h"
using namespace verif;
using namespace sim;

const char *verif_property_id = "C14";
const char *verif_rule =
    "tape -> security context (master secret 1..32 bytes, salt absent / 1..16 bytes, sender and recipient id 0..7 bytes and distinct, id context absent / 1..8 bytes, AES-CCM-16-64-128 or -256, "
    "start sequence number from {0, 1, 255, 256, 65535, 65536, 2^24-1, 2^24, 2^32-1, 2^32, 2^40-4 +- small}), message (any request method 0.01..0.07 or response code of class 2, 4, 5, "
    "options drawn from class E and class U tables incl. Uri-Host, Uri-Port, Proxy-Scheme, Observe, Block1/2, Size1/2, No-Response, ETag, If-Match, Uri-Path, Uri-Query, Content-Format, "
    "Accept, Max-Age, Location-*, unknown elective options, payload 0..1024), direction A (libcoap client against a reference-driven server) or B (reference-driven client against a libcoap "
    "server, optionally with an observation and notifications). Oracle: the datagram libcoap emits parses, carries the RFC's outer code, every option of the message on the side(s) "
    "Figure 5 allows, a compressed COSE object that decodes to the expected Partial IV / kid / kid context, and a ciphertext that the reference decrypts - with independently derived key, "
    "nonce and AAD - to exactly code + class E options + payload (byte-identical when the reference re-encrypts); what the peer application's handler sees equals the original message. "
    "Tampering: every bit of the OSCORE option value, every bit of the first/last 16 ciphertext bytes and a sample of the others flipped, ciphertext truncated to every shorter length "
    "(sampled above 64), and the genuine datagram offered to an endpoint whose context differs in one parameter: no application handler runs; afterwards the genuine datagram is accepted. "
    "Non-trivial = message with >= 1 inner and >= 1 outer option or Observe/Block and a completed tamper sweep; distinct = by context + message bytes";
size_t verif_max_tape = 1500;

namespace {

typedef std::vector<uint8_t> Bytes;

struct Seen { uint8_t code = 0; std::vector<ref::Opt> opts; Bytes payload; Bytes token; };

struct Case {
  World *w = nullptr;
  std::vector<Seen> srv_seen, cli_seen;
  ref::Msg response;      // what the libcoap server's handler answers (direction B)
  unsigned obs_state = 0;
  unsigned oscore_events = 0;
} *G = nullptr;

Seen look(const coap_pdu_t *pdu) {
  Seen s;
  s.code = (uint8_t)coap_pdu_get_code(pdu);
  coap_bin_const_t tk = coap_pdu_get_token(pdu);
  s.token.assign(tk.s, tk.s + tk.length);
  coap_opt_iterator_t oi;
  coap_opt_t *o;
  coap_option_iterator_init(pdu, &oi, COAP_OPT_ALL);
  while ((o = coap_option_next(&oi))) s.opts.push_back(ref::Opt{oi.number, Bytes(coap_opt_value(o), coap_opt_value(o) + coap_opt_length(o))});
  size_t len = 0;
  const uint8_t *d = nullptr;
  if (coap_get_data(pdu, &len, &d) && d) s.payload.assign(d, d + len);
  return s;
}

void h_srv(coap_resource_t *, coap_session_t *, const coap_pdu_t *request, const coap_string_t *, coap_pdu_t *response) {
  G->srv_seen.push_back(look(request));
  G->w->callback("SERVER HANDLER");
  const ref::Msg &r = G->response;
  coap_pdu_set_code(response, (coap_pdu_code_t)r.code);
  for (auto &o : r.opts) {
    if (o.num == 6) continue;  // Observe is added by libcoap for an established observation
    static const uint8_t dummy = 0;
    coap_add_option(response, (coap_option_num_t)o.num, o.val.size(), o.val.empty() ? &dummy : o.val.data());
  }
  if (!r.payload.empty()) coap_add_data(response, r.payload.size(), r.payload.data());
}

coap_response_t h_cli(coap_session_t *, const coap_pdu_t *, const coap_pdu_t *rcvd, const coap_mid_t) {
  G->cli_seen.push_back(look(rcvd));
  G->w->callback("CLIENT HANDLER");
  return COAP_RESPONSE_OK;
}
int h_event(coap_session_t *, const coap_event_t ev) {
  if (G && (ev & 0xff00) == 0x6000) G->oscore_events++;
  return 0;
}

std::string hexs(const Bytes &b) { std::string s; char t[3]; for (uint8_t x : b) { snprintf(t, 3, "%02x", x); s += t; } return s; }

std::string conf_text(const refo::Ctx &c, unsigned window) {
  std::string s;
  s += "master_secret,hex,\"" + hexs(c.master_secret) + "\"\n";
  if (!c.master_salt.empty()) s += "master_salt,hex,\"" + hexs(c.master_salt) + "\"\n";
  s += "sender_id,hex,\"" + hexs(c.sender_id) + "\"\n";
  s += "recipient_id,hex,\"" + hexs(c.recipient_id) + "\"\n";
  if (c.has_id_context) s += "id_context,hex,\"" + hexs(c.id_context) + "\"\n";
  s += "replay_window,integer," + std::to_string(window) + "\n";
  s += "aead_alg,integer," + std::to_string(c.alg) + "\n";
  s += "rfc8613_b_1_2,bool,false\nrfc8613_b_2,bool,false\n";
  return s;
}

coap_oscore_conf_t *make_conf(const refo::Ctx &c, uint64_t start_seq, unsigned window = 32) {
  std::string txt = conf_text(c, window);
  coap_str_const_t mem = {txt.size(), (const uint8_t *)txt.data()};
  return coap_new_oscore_conf(mem, nullptr, nullptr, start_seq);
}

void add(ref::Msg &m, uint32_t num, Bytes v) {
  m.opts.push_back(ref::Opt{num, std::move(v)});
  std::stable_sort(m.opts.begin(), m.opts.end(), [](const ref::Opt &a, const ref::Opt &b) { return a.num < b.num; });
}
Bytes text(Tape &t, size_t lo, size_t hi) {
  Bytes b(t.range((uint32_t)lo, (uint32_t)hi));
  static const char AL[] = "abcdefghijklmnopqrstuvwxyz0123456789-._~";
  for (auto &c : b) c = (uint8_t)AL[t.range(0, sizeof AL - 2)];
  return b;
}

// a request (without token/type); `for_libcoap_server`: keep to what a plain resource handler is given (no proxy options, known resource path)
ref::Msg gen_request(Tape &t, bool for_libcoap_server, bool observe) {
  ref::Msg m;
  m.code = observe ? (t.flag() ? 1 : 5) : (uint8_t)t.range(1, 7);
  if (observe) add(m, 6, t.chance(40) ? Bytes{1} : Bytes{});
  if (for_libcoap_server) add(m, 11, {'r'});
  else { unsigned n = t.range(0, 3); for (unsigned i = 0; i < n; i++) add(m, 11, text(t, 1, 12)); }
  if (t.chance(90)) add(m, 3, text(t, 1, 20));                                         // Uri-Host      U
  if (t.chance(60)) add(m, 7, simh::uint_opt(t.range(1, 65535)));                      // Uri-Port      U
  if (!for_libcoap_server && t.chance(40)) { add(m, 39, t.flag() ? Bytes{'c', 'o', 'a', 'p'} : Bytes{'c', 'o', 'a', 'p', 's'}); if (!simh::find_opt(m, 3)) add(m, 3, text(t, 1, 20)); }
  if (t.chance(50)) add(m, 1, t.blob(t.range(0, 8)));                                  // If-Match      E
  if (t.chance(50)) add(m, 4, t.blob(t.range(1, 8)));                                  // ETag          E
  if (t.chance(30) && !for_libcoap_server) add(m, 5, {});                              // If-None-Match E
  { unsigned n = t.pick({3, 2, 1}); for (unsigned i = 0; i < n; i++) add(m, 15, text(t, 1, 16)); }   // Uri-Query E
  if (t.chance(70)) add(m, 12, simh::uint_opt(t.pick({1, 1}) ? t.range(0, 60) : t.range(0, 65535)));  // Content-Format E
  if (t.chance(60)) add(m, 17, simh::uint_opt(t.range(0, 65535)));                     // Accept        E
  if (t.chance(40) && !observe && !for_libcoap_server) add(m, 23, simh::uint_opt(t.range(0, 3) << 4 | t.range(0, 6)));                                  // Block2        E
  if (t.chance(30)) add(m, 28, simh::uint_opt(0));                                     // Size2 = 0 (request for the size)
  if (t.chance(30)) add(m, 258, simh::uint_opt(t.pick({1, 1}) ? 0 : 2));               // No-Response (never suppressing 2.xx completely here)
  if (t.chance(30)) add(m, 2050 + 2 * t.range(0, 20), t.blob(t.range(0, 12)));   // unknown option: elective (number bit 0 clear)
  if (m.code != 1 && m.code != 4 && t.chance(200)) {
    m.payload = t.blob(t.pick({3, 2, 1}) == 0 ? t.range(1, 24) : t.pick({1, 1}) ? t.range(24, 300) : t.range(300, 1024));
    if (t.chance(40) && !for_libcoap_server) { add(m, 27, simh::uint_opt(0 << 4 | 0 << 3 | 6)); add(m, 60, simh::uint_opt((uint32_t)m.payload.size())); }
  }
  // a libcoap server answers FETCH / PATCH / iPATCH without Content-Format with 4.15 before any handler runs
  if (for_libcoap_server && m.code >= 5 && !simh::find_opt(m, 12)) add(m, 12, simh::uint_opt(t.range(0, 60)));
  std::stable_sort(m.opts.begin(), m.opts.end(), [](const ref::Opt &a, const ref::Opt &b) { return a.num < b.num; });
  return m;
}

ref::Msg gen_response(Tape &t, bool observe) {
  ref::Msg m;
  static const uint8_t OK[] = {0x41, 0x42, 0x43, 0x44, 0x45}, ERR[] = {0x80, 0x81, 0x84, 0x85, 0x8c, 0x8d, 0x8f, 0xa0, 0xa3};
  m.code = observe ? 0x45 : t.pick({3, 1}) == 0 ? OK[t.range(0, 4)] : ERR[t.range(0, sizeof ERR - 1)];
  if (t.chance(90)) add(m, 4, t.blob(t.range(1, 8)));
  if (t.chance(80)) add(m, 14, simh::uint_opt(t.pick({1, 1}) ? t.range(0, 600) : t.u32()));
  if (t.chance(80)) add(m, 12, simh::uint_opt(t.range(0, 65535)));
  if (m.code == 0x41 || t.chance(30)) { unsigned n = t.range(0, 3); for (unsigned i = 0; i < n; i++) add(m, 8, text(t, 1, 12)); if (t.flag()) add(m, 20, text(t, 1, 12)); }
  if (t.chance(30)) add(m, 28, simh::uint_opt(t.range(0, 100000)));
  if (t.chance(30)) add(m, 2050 + 2 * t.range(0, 20), t.blob(t.range(0, 12)));
  if (t.chance(200)) m.payload = t.blob(t.pick({3, 2, 1}) == 0 ? t.range(1, 24) : t.pick({1, 1}) ? t.range(24, 300) : t.range(300, 1024));
  return m;
}

std::string render_opts(const std::vector<ref::Opt> &v) {
  std::string s;
  for (auto &o : v) s += " " + std::to_string(o.num) + ":" + hex(o.val, 8);
  return s;
}

// Does the handler's view equal the original message?  Observe: presence only (its value is a transport-level sequence number in responses).
bool same_message(const Seen &s, const ref::Msg &m, std::string *why, bool observe_value_free) {
  if (s.code != m.code) { *why = "code " + std::to_string(s.code) + " instead of " + std::to_string(m.code); return false; }
  if (s.payload != m.payload) { *why = "payload differs (" + std::to_string(s.payload.size()) + " vs " + std::to_string(m.payload.size()) + " bytes)"; return false; }
  std::vector<ref::Opt> a, b;
  for (auto &o : s.opts) if (o.num != 9) a.push_back(o);
  for (auto &o : m.opts) if (o.num != 9) b.push_back(o);
  if (observe_value_free) { for (auto &o : a) if (o.num == 6) o.val.clear(); for (auto &o : b) if (o.num == 6) o.val.clear(); }
  std::stable_sort(a.begin(), a.end(), [](const ref::Opt &x, const ref::Opt &y) { return x.num < y.num; });
  if (!(a == b)) { *why = "options differ: seen" + render_opts(a) + " expected" + render_opts(b); return false; }
  return true;
}

// Check the datagram libcoap produced for message `m` against the RFC: returns nullptr or a description
std::string check_protected(const ref::Msg &outer, const ref::Msg &m, const refo::Unprotected &u, bool is_request) {
  bool observe = simh::find_opt(m, 6) != nullptr;
  uint8_t want = is_request ? (observe ? 5 : 2) : (observe ? 0x45 : 0x44);
  if (outer.code != want) return "outer code " + std::to_string(outer.code >> 5) + "." + std::to_string(outer.code & 31) + ", RFC 8613 4.2 requires " + std::to_string(want >> 5) + ".0" + std::to_string(want & 31);
  if (u.code != m.code) return "inner code differs from the message's code";
  if (u.payload != m.payload) return "decrypted payload differs from the message's payload";
  std::vector<ref::Opt> want_inner, outer_wo;
  for (auto &o : m.opts) {
    int cls = refo::option_class(o.num);
    if (o.num == 9) continue;
    if (cls & refo::CLS_E) want_inner.push_back(o);
  }
  std::vector<ref::Opt> got_inner = u.inner;
  if (!is_request) { for (auto &o : want_inner) if (o.num == 6) o.val.clear(); }   // 4.1.3.5.2: empty inner Observe in notifications
  if (!(got_inner == want_inner)) return "inner (encrypted) options are" + render_opts(got_inner) + ", class E options of the message are" + render_opts(want_inner);
  for (auto &o : outer.opts) {
    if (o.num == 9) continue;
    int cls = refo::option_class(o.num);
    if (!(cls & refo::CLS_U)) return "class E option " + std::to_string(o.num) + " is visible outside the ciphertext";
    // every outer option must come from the message (Observe in responses: libcoap's sequence value)
    bool found = false;
    for (auto &x : m.opts) if (x.num == o.num && (x.val == o.val || (o.num == 6 && !is_request))) found = true;
    // (libcoap adds Hop-Limit, RFC 8768, to requests that are meant for a proxy)
    if (!found && o.num == 16 && is_request && simh::find_opt(m, 39)) continue;
    if (!found) return "outer option " + std::to_string(o.num) + ":" + hex(o.val, 8) + " is not part of the message";
  }
  for (auto &o : m.opts) {
    int cls = refo::option_class(o.num);
    if (o.num == 9 || cls != refo::CLS_U) continue;
    bool found = false;
    for (auto &x : outer.opts) if (x.num == o.num && x.val == o.val) found = true;
    if (!found) return "class U option " + std::to_string(o.num) + " is missing outside";
  }
  if (observe) { bool found = false; for (auto &x : outer.opts) if (x.num == 6) found = true; if (!found) return "Observe is missing as outer option"; }
  return "";
}

// tamper operations on a protected message: positions refer to the OSCORE option value and to the ciphertext, so the same operation
// can be applied to another protected message of the same shape
struct Op { int kind; size_t idx; unsigned bit; };   // 0 option bit 1 option: drop last byte 2 option: append byte 3 ciphertext bit 4 truncate to idx 5 no payload 6 append byte
std::vector<Op> tamper_ops(Tape &t, const ref::Msg &outer, bool full) {
  std::vector<Op> out;
  const ref::Opt *o9 = simh::find_opt(outer, 9);
  if (o9) {
    for (size_t b = 0; b < o9->val.size() * 8; b++) out.push_back(Op{0, b / 8, (unsigned)(b % 8)});
    if (!o9->val.empty()) out.push_back(Op{1, 0, 0});
    out.push_back(Op{2, 0, 0});
  }
  size_t n = outer.payload.size();
  for (size_t i = 0; i < n; i++) {
    bool edge = i < 16 || i + 16 >= n;
    if (!full && !edge && !t.chance(12)) continue;
    for (unsigned b = 0; b < 8; b++) {
      if (!full && !edge && b != (i & 7)) continue;
      out.push_back(Op{3, i, b});
    }
  }
  for (size_t l = 1; l < n; l++) {
    if (!full && n > 64 && l > 8 && l + 8 < n && !t.chance(20)) continue;
    out.push_back(Op{4, l, 0});
  }
  out.push_back(Op{5, 0, 0});
  out.push_back(Op{6, 0, 0});
  return out;
}
Bytes apply_op(const Op &op, ref::Msg x) {
  size_t oi = 0;
  for (; oi < x.opts.size(); oi++) if (x.opts[oi].num == 9) break;
  switch (op.kind) {
  case 0: if (oi < x.opts.size() && op.idx < x.opts[oi].val.size()) x.opts[oi].val[op.idx] ^= (uint8_t)(1u << op.bit); break;
  case 1: if (oi < x.opts.size() && !x.opts[oi].val.empty()) x.opts[oi].val.pop_back(); break;
  case 2: if (oi < x.opts.size()) { x.opts[oi].val.push_back(0); if (x.opts[oi].val.size() == 1) x.opts[oi].val[0] = 0x01; } break;
  case 3: if (op.idx < x.payload.size()) x.payload[op.idx] ^= (uint8_t)(1u << op.bit); break;
  case 4: if (op.idx < x.payload.size()) x.payload.resize(op.idx); break;
  case 5: x.payload.clear(); break;
  default: x.payload.push_back(0); break;
  }
  return ref::encode(x, ref::F_UDP);
}
std::vector<Bytes> tamper(Tape &t, const ref::Msg &outer, bool full) {
  std::vector<Bytes> out;
  for (auto &op : tamper_ops(t, outer, full)) out.push_back(apply_op(op, outer));
  return out;
}

refo::Ctx gen_ctx(Tape &t) {
  refo::Ctx c;
  c.master_secret = t.blob(t.pick({1, 3}) == 0 ? t.range(1, 15) : t.pick({3, 1}) == 0 ? 16 : t.range(17, 32));
  if (t.chance(170)) c.master_salt = t.blob(t.pick({2, 1}) == 0 ? 8 : t.range(1, 16));
  c.sender_id = t.blob(t.pick({2, 3, 1}) == 0 ? 0 : t.pick({3, 1}) == 0 ? 1 : t.range(2, 7));
  c.recipient_id = t.blob(t.pick({2, 3, 1}) == 0 ? 0 : t.pick({3, 1}) == 0 ? 1 : t.range(2, 7));
  if (c.recipient_id == c.sender_id) c.recipient_id.push_back(0x5a), c.recipient_id.resize(std::min<size_t>(7, c.recipient_id.size()));
  if (c.recipient_id == c.sender_id) c.recipient_id[0] ^= 1;
  if (t.chance(110)) { c.has_id_context = true; c.id_context = t.blob(t.range(1, 8)); }   // (a present but empty ID Context is not generated: libcoap's configuration equates it with 'absent')
  c.alg = 10;   // (AES-CCM-16-64-256 is accepted by the configuration parser but cannot be used: keys are always derived with 16 bytes - see DESIGN.md)
  refo::derive(c);
  return c;
}

uint64_t gen_seq(Tape &t) {
  static const uint64_t B[] = {0, 1, 255, 256, 65535, 65536, (1ull << 24) - 1, 1ull << 24, (1ull << 32) - 1, 1ull << 32, (1ull << 40) - 100000, (1ull << 40) - 5};
  uint64_t s = B[t.range(0, sizeof B / sizeof B[0] - 1)];
  int d = (int)t.range(0, 6) - 3;
  if (d < 0 && s < (uint64_t)-d) d = 0;
  return std::min<uint64_t>(s + (uint64_t)(int64_t)d, (1ull << 40) - 2);   // 2^40 - 2 is the last usable sequence number
}

}  // namespace

void verif_init() {
  coap_startup();
  coap_set_log_level(getenv("C14_DEBUG") ? COAP_LOG_DEBUG : COAP_LOG_EMERG);
  const char *e = refo::selftest();
  if (e) { fprintf(stderr, "reference OSCORE implementation fails RFC 8613 test vector: %s\n", e); abort(); }
}

int verif_case(const uint8_t *tape, size_t tlen, Info *info) {
  Tape t(tape, tlen);
  Case cs;
  G = &cs;
  World w;
  cs.w = &w;
  seed_prng(t.u16());
  bool dirB = t.flag();
  bool full_sweep = getenv("VERIF_TIER") && !strcmp(getenv("VERIF_TIER"), "thorough") && t.chance(64);
  bool observe = t.chance(60);
  refo::Ctx cli = gen_ctx(t);          // the client's view: sender_id = client id
  refo::Ctx srv = refo::mirror(cli);   // the server's view
  uint64_t seq = gen_seq(t);
  // (as sender libcoap refuses the last usable number 2^40-2 itself: it increments first and then compares - conservative, not a violation)
  if (!dirB && seq > (1ull << 40) - 4) seq = (1ull << 40) - 4;
  int verdict = HELD;
  bool swept = false;
  std::string hist;
  char hb[256];
  coap_context_t *ctx = coap_new_context(nullptr);
  coap_context_t *ctx2 = nullptr;   // endpoint with a foreign context
  if (!ctx) { G = nullptr; return OUT_OF_DOMAIN; }
  coap_register_event_handler(ctx, h_event);
  w.add_context(ctx);
  Addr sa = Addr::v4(10, 0, 0, 1, 5683), ca = Addr::v4(10, 0, 7, 1, 45000);
  ref::Msg M, R;
#define FAIL(...) do { info->fail(__VA_ARGS__); verdict = VIOLATION; goto teardown; } while (0)
  snprintf(hb, sizeof hb, "%s ctx{secret=%zuB salt=%zuB cid=%s sid=%s idctx=%s alg=%d} seq=%llu%s; ", dirB ? "B(libcoap server)" : "A(libcoap client)", cli.master_secret.size(), cli.master_salt.size(),
           hex(cli.sender_id, 8).c_str(), hex(cli.recipient_id, 8).c_str(), cli.has_id_context ? hex(cli.id_context, 8).c_str() : "-", cli.alg, (unsigned long long)seq, observe ? " observe" : "");
  hist += hb;

  if (!dirB) {
    // ======== A: libcoap client, reference-driven server ========
    M = gen_request(t, false, observe);
    R = gen_response(t, observe);
    if (observe) add(R, 6, simh::uint_opt(t.range(2, 1000)));
    bool con = t.flag();
    coap_register_response_handler(ctx, h_cli);
    coap_oscore_conf_t *conf = make_conf(cli, seq);
    if (!conf) FAIL("coap_new_oscore_conf() refused a valid configuration:\n%s", conf_text(cli, 32).c_str());
    Peer *S = w.add_peer(sa);
    std::vector<Datagram> rx;
    S->on_rx = [&](World &, Peer &, const Datagram &d) { rx.push_back(d); };
    coap_address_t dst;
    sa.to_coap(&dst);
    coap_session_t *session = coap_new_client_session_oscore(ctx, nullptr, &dst, COAP_PROTO_UDP, conf);
    if (!session) FAIL("coap_new_client_session_oscore() failed for a valid configuration");
    hist += "request code=" + std::to_string(M.code) + render_opts(M.opts) + " payload=" + std::to_string(M.payload.size()) + "; ";
    int64_t own = observe || t.chance(40) ? (int64_t)gen_seq(t) : -1;
    if (own > (int64_t)((1ull << 40) - 50000)) own = seq > (1ull << 40) - 50000 ? (int64_t)((1ull << 40) - 4) : (int64_t)((1ull << 40) - 50000);   // room for one Partial IV per exchange
    unsigned tok_no = 0;
    uint16_t rmid = 0x5000;
    // one exchange: the libcoap client sends M (fresh token, next sequence number), the datagram is checked against the reference, and the
    // reference-driven server answers with R protected for exactly this request - untouched (op == nullptr), damaged by `op`, or protected
    // under a context that differs in one parameter (foreign != nullptr).  Returns false on a violation.
    bool reuse_token = false, silent = false;
    Bytes last_token;
    auto exchange = [&](const Op *op, const refo::Ctx *foreign, size_t *handler_calls) -> bool {
      rx.clear();
      cs.cli_seen.clear();
      w.steps = 0;        // the step cap is per exchange here
      w.trace.clear();
      Bytes token = {(uint8_t)(tok_no >> 8), (uint8_t)tok_no, 0x7c};
      token.resize(tok_no == 0 ? t.range(0, 8) : 3, 0x11);
      if (reuse_token) token = last_token;   // the application re-uses the token of an exchange that never got its response
      last_token = token;
      tok_no++;
      coap_pdu_t *pdu = coap_new_pdu(con ? COAP_MESSAGE_CON : COAP_MESSAGE_NON, (coap_pdu_code_t)M.code, session);
      coap_add_token(pdu, token.size(), token.empty() ? (const uint8_t *)"" : token.data());
      for (auto &o : M.opts) { static const uint8_t dummy = 0; if (!coap_add_option(pdu, (coap_option_num_t)o.num, o.val.size(), o.val.empty() ? &dummy : o.val.data())) { coap_delete_pdu(pdu); info->fail("coap_add_option(%u) refused", o.num); return false; } }
      if (!M.payload.empty()) coap_add_data(pdu, M.payload.size(), M.payload.data());
      if (coap_send(session, pdu) == COAP_INVALID_MID) { info->fail("coap_send() of an OSCORE request failed: code %u options%s payload %zu", M.code, render_opts(M.opts).c_str(), M.payload.size()); return false; }
      w.run(w.now, 2000);
      if (rx.size() != 1) { info->fail("the client sent %zu datagrams for one request", rx.size()); return false; }
      ref::Msg outer;
      if (!simh::parse(rx[0].data, &outer)) { info->fail("the protected request is not a well-formed CoAP message: %s", hex(rx[0].data, 60).c_str()); return false; }
      if (outer.token != token || outer.type != (con ? 0 : 1)) { info->fail("token / type of the protected request differ from the request's"); return false; }
      refo::Unprotected u = refo::unprotect_request(srv, outer);
      if (!u.ok) { info->fail("the reference cannot unprotect libcoap's request: %s (OSCORE option %s, %zu bytes ciphertext)", u.why, hex(simh::find_opt(outer, 9) ? simh::find_opt(outer, 9)->val : Bytes(), 24).c_str(), outer.payload.size()); return false; }
      uint64_t want_seq = seq + (tok_no - 1);
      if (u.opt.piv != refo::piv_bytes(want_seq)) { info->fail("Partial IV %s, expected sender sequence number %llu encoded as %s", hex(u.opt.piv, 8).c_str(), (unsigned long long)want_seq, hex(refo::piv_bytes(want_seq), 8).c_str()); return false; }
      std::string e = check_protected(outer, M, u, true);
      if (!e.empty()) { info->fail("protected request: %s", e.c_str()); return false; }
      // byte identity: the reference, given libcoap's choice of where to put options that may go either side, produces the same ciphertext
      Bytes ct;
      refo::ccm_encrypt(cli.sender_key, refo::nonce(cli, cli.sender_id, u.opt.piv), refo::aad(cli, cli.sender_id, u.opt.piv), refo::plaintext(M.code, u.inner, M.payload), &ct);
      if (ct != outer.payload) { info->fail("ciphertext differs from the reference's encryption of the same plaintext"); return false; }
      if (silent) {   // the server acknowledges but never answers
        if (con) { w.peer_send(S, rx[0].src, simh::ack(outer.mid)); w.run(w.now, 2000); }
        *handler_calls = cs.cli_seen.size();
        session->doing_first = 0;
        return true;
      }
      ref::Msg pr = refo::protect_response(foreign ? *foreign : srv, R, u.opt.kid, u.opt.piv, own >= 0 ? own + (int64_t)tok_no : -1);
      pr.token = token;
      if (con && !observe) { pr.type = 2; pr.mid = outer.mid; } else { pr.type = 1; pr.mid = rmid++; if (con) { w.peer_send(S, rx[0].src, simh::ack(outer.mid)); w.run(w.now, 2000); } }
      w.peer_send(S, rx[0].src, op ? apply_op(*op, pr) : ref::encode(pr, ref::F_UDP));
      w.run(w.now + 1, 4000);
      *handler_calls = cs.cli_seen.size();
      // An OSCORE client session holds back further requests for up to 5 s while its previous request is unanswered (coap_client_delay_first(),
      // a wall-clock wait inside coap_new_pdu()).  A rejected response leaves the request unanswered; instead of waiting, do what that
      // time-out does.
      session->doing_first = 0;
      return true;
    };
    size_t calls = 0;
    // the genuine exchange first
    if (!exchange(nullptr, nullptr, &calls)) { verdict = VIOLATION; goto teardown; }
    if (calls != 1) FAIL("the genuine protected response was delivered %zu times to the response handler (code %u options%s payload %zu, own PIV %lld)", calls, R.code, render_opts(R.opts).c_str(), R.payload.size(), (long long)own);
    {
      std::string why;
      if (!same_message(cs.cli_seen[0], R, &why, true)) FAIL("the client's handler does not see the response the reference protected: %s", why.c_str());
    }
    // a request that is never answered, then the same token again for a new request: protected like any other
    if (seq <= (1ull << 40) - 50000 && t.chance(128)) {
      silent = true;
      if (!exchange(nullptr, nullptr, &calls)) { verdict = VIOLATION; goto teardown; }
      silent = false;
      reuse_token = true;
      bool ok = exchange(nullptr, nullptr, &calls);
      reuse_token = false;
      if (!ok) { verdict = VIOLATION; goto teardown; }
      if (calls != 1) FAIL("a request re-using the token of an unanswered request: the genuine response was delivered %zu times", calls);
      info->label("token-reuse-after-unanswered-request");
    }
    // tamper sweep: one fresh exchange per damaged response (not when the sender sequence numbers are about to run out)
    if (seq > (1ull << 40) - 50000) { info->label("top-of-sequence-space"); goto teardown; }
    {
      ref::Msg shape = refo::protect_response(srv, R, cli.sender_id, refo::piv_bytes(seq), own);
      std::vector<Op> ops = tamper_ops(t, shape, full_sweep);
      for (auto &op : ops) {
        // setting the kid flag of a response yields "kid present and empty" - for a server with an empty Sender ID that is just the other
        // valid encoding of the same message
        if (op.kind == 0 && op.idx == 0 && op.bit == 3 && srv.sender_id.empty()) { info->label("variant-still-valid"); continue; }
        if (!exchange(&op, nullptr, &calls)) { verdict = VIOLATION; goto teardown; }
        if (calls) FAIL("a tampered protected response reached the client's response handler (operation kind %d index %zu bit %u)", op.kind, op.idx, op.bit);
      }
      refo::Ctx other = srv;
      switch (t.range(0, 2)) { case 0: other.master_secret[0] ^= 1; break; case 1: other.master_salt.push_back(7); break; default: other.has_id_context = !other.has_id_context; other.id_context = {1}; break; }
      refo::derive(other);
      if (!exchange(nullptr, &other, &calls)) { verdict = VIOLATION; goto teardown; }
      if (calls) FAIL("a response protected with a different security context reached the client's response handler");
      swept = true;
      hist += "response code=" + std::to_string(R.code) + render_opts(R.opts) + " payload=" + std::to_string(R.payload.size()) + (own >= 0 ? " ownPIV" : "") + " variants=" + std::to_string(ops.size()) + "; ";
    }
    // and a genuine exchange still works afterwards
    if (!exchange(nullptr, nullptr, &calls)) { verdict = VIOLATION; goto teardown; }
    if (calls != 1) FAIL("after the tamper sweep a genuine exchange delivers %zu responses", calls);
  } else {
    // ======== B: reference-driven client, libcoap server ========
    M = gen_request(t, true, observe);
    R = gen_response(t, observe);
    cs.response = R;
    coap_oscore_conf_t *conf = make_conf(srv, std::min<uint64_t>(gen_seq(t), (1ull << 40) - 12));   // room for the response and up to three notifications
    if (!conf) FAIL("coap_new_oscore_conf() refused a valid configuration:\n%s", conf_text(srv, 32).c_str());
    if (!coap_context_oscore_server(ctx, conf)) FAIL("coap_context_oscore_server() failed for a valid configuration");
    coap_address_t la;
    sa.to_coap(&la);
    coap_new_endpoint(ctx, &la, COAP_PROTO_UDP);
    coap_resource_t *res = coap_resource_init(coap_make_str_const("r"), COAP_RESOURCE_FLAGS_OSCORE_ONLY);
    for (int m = 1; m <= 7; m++) coap_register_handler(res, (coap_request_t)m, h_srv);
    coap_resource_set_get_observable(res, 1);
    coap_add_resource(ctx, res);
    Peer *C = w.add_peer(ca);
    std::vector<Datagram> rx;
    C->on_rx = [&](World &ww, Peer &p, const Datagram &d) {
      rx.push_back(d);
      if (d.data.size() >= 4 && (d.data[0] & 0x30) == 0 && d.data[1] != 0) ww.peer_send(&p, d.src, simh::ack((uint16_t)(d.data[2] << 8 | d.data[3])));
    };
    bool con = t.flag();
    Bytes token = t.blob(t.range(0, 8));
    // (the kid context is sent whenever an ID Context is configured - libcoap's choice as sender and what it expects as recipient; RFC 8613 leaves it optional)
    refo::Protected pr = refo::protect_request(cli, M, seq, true);
    pr.outer.type = con ? 0 : 1;
    pr.outer.token = token;
    pr.outer.mid = 0x6000;
    hist += "request code=" + std::to_string(M.code) + render_opts(M.opts) + " payload=" + std::to_string(M.payload.size()) + "; ";
    // ---- tamper sweep: nothing may reach the handler ----
    std::vector<Bytes> variants = tamper(t, pr.outer, full_sweep);
    uint16_t mid = 0x6001;
    for (auto &v : variants) {
      Bytes d = v;
      d[2] = (uint8_t)(mid >> 8); d[3] = (uint8_t)mid; mid++;
      w.steps = 0;
      w.trace.clear();
      w.peer_send(C, sa, d);
      w.run(w.now, 2000);
      if (!cs.srv_seen.empty()) FAIL("a tampered protected request reached the server's request handler (variant %s..., genuine %s...)", hex(d, 40).c_str(), hex(ref::encode(pr.outer, ref::F_UDP), 40).c_str());
    }
    // ---- the genuine datagram offered to a server with a context that differs in one parameter ----
    {
      refo::Ctx other = srv;
      size_t what = t.range(0, 3);
      switch (what) {
      case 0: other.master_secret[0] ^= 1; break;
      case 1: other.master_salt.push_back(7); break;
      case 2: other.has_id_context = !other.has_id_context; other.id_context = {1}; break;
      default: other.recipient_id.push_back(1); if (other.recipient_id.size() > 7) { other.recipient_id.resize(7); other.recipient_id[0] ^= 1; } if (other.recipient_id == other.sender_id) other.recipient_id[0] ^= 2; break;
      }
      ctx2 = coap_new_context(nullptr);
      coap_oscore_conf_t *conf2 = ctx2 ? make_conf(other, 0) : nullptr;
      if (ctx2 && conf2 && coap_context_oscore_server(ctx2, conf2)) {
        Addr sa2 = Addr::v4(10, 0, 0, 9, 5683);
        coap_address_t l2;
        sa2.to_coap(&l2);
        coap_new_endpoint(ctx2, &l2, COAP_PROTO_UDP);
        coap_resource_t *r2 = coap_resource_init(coap_make_str_const("r"), COAP_RESOURCE_FLAGS_OSCORE_ONLY);
        for (int m = 1; m <= 7; m++) coap_register_handler(r2, (coap_request_t)m, h_srv);
        coap_add_resource(ctx2, r2);
        w.add_context(ctx2);
        w.peer_send(C, sa2, ref::encode(pr.outer, ref::F_UDP));
        w.run(w.now, 4000);
        if (!cs.srv_seen.empty()) FAIL("a request protected with the genuine context was accepted by a server whose context differs in %s", what == 0 ? "the master secret" : what == 1 ? "the master salt" : what == 2 ? "the id context" : "the recipient id");
      }
    }
    swept = true;
    rx.clear();
    w.peer_send(C, sa, ref::encode(pr.outer, ref::F_UDP));
    w.run(w.now + 10, 4000);
    hist += "response code=" + std::to_string(R.code) + render_opts(R.opts) + " payload=" + std::to_string(R.payload.size()) + " variants=" + std::to_string(variants.size()) + "; ";
    if (cs.srv_seen.size() != 1) FAIL("after %zu rejected variants the genuine protected request reached the handler %zu times (code %u options%s payload %zu, %u OSCORE events)", variants.size(), cs.srv_seen.size(), M.code, render_opts(M.opts).c_str(), M.payload.size(), cs.oscore_events);
    {
      std::string why;
      if (!same_message(cs.srv_seen[0], M, &why, false)) FAIL("the server's handler does not see the request the reference protected: %s", why.c_str());
      if (cs.srv_seen[0].token != token) FAIL("request handler sees a different token");
    }
    // the protected response(s): an optional Empty ACK first, then the response
    auto check_response = [&](const ref::Msg &expect, const char *what) -> bool {
      ref::Msg outer;
      bool found = false;
      for (auto &d : rx) {
        ref::Msg m;
        if (!simh::parse(d.data, &m)) { info->fail("%s: the server sent a malformed datagram %s", what, hex(d.data, 40).c_str()); return false; }
        if (m.code == 0) continue;
        if (found) { info->fail("%s: more than one response datagram", what); return false; }
        outer = m;
        found = true;
      }
      if (!found) { info->fail("%s: no protected response was sent (%zu datagrams)", what, rx.size()); return false; }
      if (outer.token != token) { info->fail("%s: response token differs", what); return false; }
      refo::Unprotected ur = refo::unprotect_response(cli, outer, pr.request_kid, pr.request_piv);
      if (!ur.ok) { info->fail("%s: the reference cannot unprotect libcoap's response: %s (OSCORE option %s, %zu bytes ciphertext)", what, ur.why, hex(simh::find_opt(outer, 9) ? simh::find_opt(outer, 9)->val : Bytes(), 24).c_str(), outer.payload.size()); return false; }
      if (ur.opt.has_kid_ctx || (ur.opt.has_kid && ur.opt.kid != srv.sender_id)) { info->fail("%s: response carries a kid / kid context that is not the server's", what); return false; }
      ref::Msg e = expect;
      std::string err = check_protected(outer, e, ur, false);
      if (!err.empty()) { info->fail("%s: %s", what, err.c_str()); return false; }
      return true;
    };
    ref::Msg expect = R;
    bool registered = observe && (M.code == 1 || M.code == 5) && simh::find_opt(M, 6) && simh::find_opt(M, 6)->val.empty() && (R.code >> 5) == 2;
    if (registered) add(expect, 6, {});
    // No-Response may legitimately suppress the response
    {
      const ref::Opt *nr = simh::find_opt(M, 258);
      unsigned cls = R.code >> 5;
      bool suppressed = nr && !nr->val.empty() && ((nr->val[0] & 2 && cls == 2) || (nr->val[0] & 8 && cls == 4) || (nr->val[0] & 16 && cls == 5));
      if (suppressed) { hist += "(response suppressed by No-Response) "; }
      else if (!check_response(expect, "response")) { verdict = VIOLATION; goto teardown; }
      else if (registered) {
        // notifications: each with the server's own, new Partial IV
        std::set<Bytes> pivs;
        unsigned n = t.range(1, 3);
        for (unsigned i = 0; i < n; i++) {
          rx.clear();
          cs.obs_state++;
          cs.response = gen_response(t, true);
          coap_resource_notify_observers(res, nullptr);
          w.run(w.now + 5, 4000);
          ref::Msg e2 = cs.response;
          add(e2, 6, {});
          if (!check_response(e2, "notification")) { verdict = VIOLATION; goto teardown; }
          for (auto &d : rx) { ref::Msg m; if (simh::parse(d.data, &m) && m.code) { refo::OscoreOpt oo; const ref::Opt *o9 = simh::find_opt(m, 9); if (o9 && refo::decode_opt(o9->val, &oo)) { if (oo.piv.empty()) FAIL("notification %u re-uses the request's nonce (no Partial IV): RFC 8613 4.1.3.5.2 requires a new one", i + 1); if (!pivs.insert(oo.piv).second) FAIL("two notifications carry the same Partial IV %s", hex(oo.piv, 8).c_str()); } } }
        }
        info->label("notifications");
      }
    }
  }
teardown:
  {
    bool inner = false, outer = false, special = false;
    for (auto &o : M.opts) { int c = refo::option_class(o.num); if (c == refo::CLS_U) outer = true; else if (c == refo::CLS_E) inner = true; if (o.num == 6 || o.num == 23 || o.num == 27) special = true; }
    info->nontrivial = swept && ((inner && outer) || special);
  }
  info->label(dirB ? "dir:B" : "dir:A");
  if (cli.has_id_context) info->label("id-context");
  if (cli.sender_id.empty() || cli.recipient_id.empty()) info->label("empty-id");
  if (cli.alg == 11) info->label("aes-256");
  if (full_sweep) info->label("full-sweep");
  info->rs(hist);
  info->mix(hist.data(), hist.size());
  w.remove_context(ctx);
  coap_free_context(ctx);
  if (ctx2) { w.remove_context(ctx2); coap_free_context(ctx2); }
  G = nullptr;
  return verdict;
}
