// C12 — sessions map 1:1 to peers, live while referenced; everything is released.
// libcoap server (+ optional libcoap client context) on the simulated network, up to 50 scripted peers;
// event-handler / handler log against a session model, allocation table + ASan/LSan for lifetime.
#include "../sim/helpers.h"
#include <sanitizer/lsan_interface.h>
#include <cstdarg>
#include <cstring>
using namespace verif;
using namespace sim;

const char *verif_property_id = "C12";
const char *verif_rule =
    "tape -> libcoap UDP server with 1..2 endpoints (ports 5683/5684), session_timeout in {default, 1..30 s}, max_idle_sessions in {0, 1..5}, 1..50 scripted peers whose "
    "addresses collide pairwise in IP or in port, optional libcoap client context with 0..2 client sessions, history of 3..40 operations from {request from peer p to endpoint e for a plain / "
    "reference-holding / async (delayed separate response) / observable resource, CON or NON, application releases a held session reference, resource change (notification), Observe cancel, "
    "I/O step, time jump (short, around the session timeout, several timeouts), peer stops / resumes acknowledging, client session create / request / release}, then teardown at that "
    "point (held references released first, contexts freed in either order, datagrams possibly still in flight). Oracle: every handler call sees a session announced by exactly one "
    "SERVER_SESSION_NEW and not yet SERVER_SESSION_DEL, the session's peer key (remote address+port, local port) equals the datagram's, no two live sessions share a key; no DEL while the "
    "application holds a reference or an async entry is pending; a DEL before teardown is explained by the session timeout (idle >= timeout) or by idle-limit eviction (limit reached, victim "
    "not younger than every certainly-idle session); certainly-idle sessions are gone once timeout + slack has passed and the limit evicts when a new peer arrives; after the contexts are "
    "freed NEW and DEL counts match, the typed-allocation table is empty, nothing was released twice, LeakSanitizer finds no leak, and ASan saw no use after release. "
    "In part of the longer tapes block-wise transfers hang off the sessions (libcoap serves a 300 byte representation in 64 byte blocks and re-assembles uploads; peers ask for first and following blocks in any order with no / the seen / a foreign ETag, upload some blocks and stop) and the clock moves on inside library calls. "
    "A quarter of the cases (last tape byte) run scenario (C) instead: libcoap TCP server, up to 8 scripted connections, history of 3..30 operations from {connect (+CSM), complete request for a plain / "
    "reference-holding / async resource, only the first k bytes of a request, the rest of it, Ping / Release / Abort signalling, peer closes (also in the middle of a message or before the accept), I/O step, "
    "time jump, application releases a reference}, teardown at that point; oracle: one NEW per connection, handlers only see live sessions, no DEL while referenced, a connection the peer closed >= 100 ms ago "
    "with nothing referring to it is gone after settling, NEW/DEL balance, allocation table empty, nothing released twice, no leak. "
    "Non-trivial = >= 3 sessions created and a reclamation, eviction or reference-holding path exercised; distinct = by history + event log";
size_t verif_max_tape = 320;

namespace {

struct Key {
  Addr remote;
  uint16_t lport = 0;
  bool operator<(const Key &o) const { return remote != o.remote ? remote < o.remote : lport < o.lport; }
  bool operator==(const Key &o) const { return remote == o.remote && lport == o.lport; }
  std::string str() const { return remote.str() + "->:" + std::to_string(lport); }
};

struct SModel {
  Key key;
  uint64_t born = 0, last_activity = 0;
  int app_refs = 0;
  int async_pending = 0;
  std::set<std::vector<uint8_t>> obs_tokens;  // observations the model believes may be registered
  uint64_t maybe_until = 0;                   // a Confirmable message from the server may still be queued until then
  uint64_t idle_since = 0;
  uint16_t last_notif_mid = 0;
  bool have_notif = false;
};

struct Case {
  World *w = nullptr;
  Info *info = nullptr;
  coap_context_t *sctx = nullptr;
  std::map<coap_session_t *, SModel> live;
  std::vector<coap_session_t *> held;    // application references (one entry per reference)
  unsigned news = 0, dels = 0;
  bool tearing_down = false;
  bool violated = false;
  uint64_t timeout_ms = 300000;
  uint64_t last_del_t = 0;
  unsigned max_idle = 0;
  size_t trace_pos = 0;
  coap_resource_t *obs_res = nullptr;
  unsigned big_given = 0, big_released = 0, transfers = 0;
  unsigned obs_state = 0;
  // the DEL that has just happened and still needs an explanation (eviction => a NEW follows while the same datagram is processed)
  bool pending_del = false;
  size_t pending_del_trace = 0;
  std::string pending_del_what;
  uint64_t pending_victim_activity = 0;
  unsigned evictions = 0, reclaimed = 0, held_total = 0, async_total = 0, client_ops = 0, obs_rst = 0, oneway = 0;
  std::vector<std::string> log;
  std::set<uint16_t> req_mids;   // message ids of requests sent by scripted peers (a NON response re-uses the request's id: not a notification)
  // (C) stream scenario: sessions are connections; the idle-limit / time-out model of the datagram scenario does not apply
  bool tcp_mode = false;
  std::map<Addr, uint64_t> closed_at;   // remote address of a connection -> when the peer closed it
} *G = nullptr;

void fail(const char *fmt, ...) __attribute__((format(printf, 1, 2)));
void fail(const char *fmt, ...) {
  if (G->violated) return;
  char b[400];
  va_list ap;
  va_start(ap, fmt);
  vsnprintf(b, sizeof b, fmt, ap);
  va_end(ap);
  G->violated = true;
  G->info->fail("%s", b);
}

Key key_of(coap_session_t *s) {
  Key k;
  k.remote = Addr::from_coap(coap_session_get_addr_remote(s));
  k.lport = Addr::from_coap(coap_session_get_addr_local(s)).port;
  return k;
}

bool sure_idle(const SModel &m, uint64_t now) { return m.app_refs == 0 && m.async_pending == 0 && m.obs_tokens.empty() && now >= m.maybe_until; }
bool surely_referenced(const SModel &m) { return m.app_refs > 0 || m.async_pending > 0; }

// bring last_activity up to date from the wire trace
void sync_activity() {
  World &w = *G->w;
  for (; G->trace_pos < w.trace.size(); G->trace_pos++) {
    auto &e = w.trace[G->trace_pos];
    Key k;
    bool con_from_lib = false;
    if (e.kind == EV_READ && e.dst.ip[3] == 1 && e.dst.ip[2] == 0) { k.remote = e.src; k.lport = e.dst.port; }
    else if (e.kind == EV_SEND && e.from_lib && e.src.ip[3] == 1 && e.src.ip[2] == 0) {
      k.remote = e.dst; k.lport = e.src.port;
      con_from_lib = e.data.size() >= 4 && (e.data[0] & 0x30) == 0x00 && e.data[1] != 0;
    } else continue;
    ref::Msg m;
    bool parsed = simh::parse(e.data, &m);
    for (auto &kv : G->live) if (kv.second.key == k) {
      SModel &sm = kv.second;
      sm.last_activity = e.t;
      if (con_from_lib && e.t + 100000 > sm.maybe_until) sm.maybe_until = e.t + 100000;
      if (!parsed) continue;
      if (e.kind == EV_SEND && m.code >= 64 && m.type <= 1 && simh::find_opt(m, 6) && !G->req_mids.count(m.mid)) { sm.last_notif_mid = m.mid; sm.have_notif = true; }
      // a (re-)registration makes its own response the latest message of the observation
      if (e.kind == EV_READ && ref::is_request(m.code) && simh::find_opt(m, 6)) sm.have_notif = false;
      // Reset in reply to the latest notification ends the (single) observation of this peer; so does a failed Confirmable notification,
      // which the model does not track: it only forgets observations it is sure about
      if (e.kind == EV_READ && m.type == 3 && m.code == 0 && sm.have_notif && m.mid == sm.last_notif_mid && !sm.obs_tokens.empty()) {
        sm.obs_tokens.clear();
        sm.idle_since = e.t;
        sm.have_notif = false;
        G->obs_rst++;
      }
    }
  }
}

void explain_pending_del(bool followed_by_new) {
  if (!G->pending_del) return;
  G->pending_del = false;
  if (!followed_by_new) fail("%s before the session timeout although no new peer arrived (idle-limit eviction is the only other reason)", G->pending_del_what.c_str());
}

int event_handler(coap_session_t *session, const coap_event_t event) {
  if (!G) return 0;
  World &w = *G->w;
  if (G->tcp_mode) {
    if (event == COAP_EVENT_SERVER_SESSION_NEW) {
      G->news++;
      Key k = key_of(session);
      if (G->live.count(session)) fail("SERVER_SESSION_NEW for session %p which is already live", (void *)session);
      for (auto &kv : G->live) if (kv.second.key == k) fail("second live session for connection %s", k.str().c_str());
      SModel m;
      m.key = k;
      m.born = m.last_activity = w.now;
      G->live[session] = m;
      w.callback("NEW " + k.str());
    } else if (event == COAP_EVENT_SERVER_SESSION_DEL) {
      G->dels++;
      auto it = G->live.find(session);
      if (it == G->live.end()) { fail("SERVER_SESSION_DEL for session %p that is not live (never announced or already deleted)", (void *)session); return 0; }
      w.callback("DEL " + it->second.key.str());
      if (!G->tearing_down) {
        if (it->second.app_refs > 0) fail("session %s deleted while the application holds %d reference(s)", it->second.key.str().c_str(), it->second.app_refs);
        else if (it->second.async_pending > 0) fail("session %s deleted while an async entry refers to it", it->second.key.str().c_str());
      }
      G->live.erase(it);
    }
    return 0;
  }
  if (event == COAP_EVENT_SERVER_SESSION_NEW) {
    sync_activity();
    G->news++;
    Key k = key_of(session);
    if (G->live.count(session)) fail("SERVER_SESSION_NEW for session %p which is already live", (void *)session);
    for (auto &kv : G->live) if (kv.second.key == k) fail("second live session for peer key %s", k.str().c_str());
    // idle-limit: how many sessions were certainly idle when this peer arrived?
    unsigned idle = 0;
    uint64_t oldest_sure = UINT64_MAX;
    // (libcoap keeps one session table per endpoint and applies the limit to each table)
    for (auto &kv : G->live) if (kv.second.key.lport == k.lport && sure_idle(kv.second, w.now)) { idle++; if (kv.second.last_activity < oldest_sure) oldest_sure = kv.second.last_activity; }
    bool evicted = G->pending_del && G->pending_del_trace == w.trace.size();
    if (evicted) {
      G->evictions++;
      if (G->max_idle == 0) fail("%s with no idle-session limit configured and before the session timeout", G->pending_del_what.c_str());
      // the victim must not be younger than every certainly idle session that stayed
      // (clock moving inside calls: the harness and libcoap stamp the same datagram up to the length of a call apart, so 'older' is only
      //  decided beyond that margin)
      else if (idle > 0 && G->pending_victim_activity > oldest_sure + (w.creep_every ? 50 : 0))
        fail("idle-limit eviction took a session last active at %llu although an idle session last active at %llu exists", (unsigned long long)G->pending_victim_activity, (unsigned long long)oldest_sure);
      G->pending_del = false;
    } else {
      explain_pending_del(false);
      // (clock moving inside calls: a session deleted in the last moments may have been this eviction although its timeout had also just passed)
      if (G->max_idle > 0 && idle >= G->max_idle && !(w.creep_every && G->last_del_t + 50 >= w.now)) fail("new peer %s arrived with %u certainly idle sessions (limit %u) and no idle session was evicted", k.str().c_str(), idle, G->max_idle);
    }
    SModel m;
    m.key = k;
    m.born = m.last_activity = m.idle_since = w.now;
    G->live[session] = m;
    w.callback("NEW " + k.str());
  } else if (event == COAP_EVENT_SERVER_SESSION_DEL) {
    sync_activity();
    G->dels++;
    auto it = G->live.find(session);
    if (it == G->live.end()) { fail("SERVER_SESSION_DEL for session %p that is not live (never announced or already deleted)", (void *)session); return 0; }
    SModel &m = it->second;
    explain_pending_del(false);
    G->last_del_t = w.now;
    w.callback("DEL " + m.key.str());
    if (!G->tearing_down) {
      if (m.app_refs > 0) fail("session %s deleted while the application holds %d reference(s)", m.key.str().c_str(), m.app_refs);
      else if (m.async_pending > 0) fail("session %s deleted while an async entry refers to it", m.key.str().c_str());
      // (when the clock moves on inside calls the harness and libcoap stamp the same event up to the length of one call apart: 50 ms is far
      //  above what a call takes here, far below every session timeout)
      else if (w.now + (w.creep_every ? 50 : 0) >= m.last_activity + G->timeout_ms) G->reclaimed++;
      else {
        // only idle-limit eviction explains this; decided when we see whether a NEW follows within the same datagram
        char b[200];
        snprintf(b, sizeof b, "session %s deleted at %llu, %llu ms after its last activity (timeout %llu ms)", m.key.str().c_str(), (unsigned long long)w.now,
                 (unsigned long long)(w.now - m.last_activity), (unsigned long long)G->timeout_ms);
        G->pending_del = true;
        G->pending_del_trace = w.trace.size() + 1;  // our own callback() entry above does not count: recompute below
        G->pending_del_what = b;
        G->pending_victim_activity = m.last_activity;
      }
    }
    G->live.erase(it);
    if (G->pending_del) G->pending_del_trace = w.trace.size();
  }
  return 0;
}

SModel *check_handler_session(coap_session_t *session, const char *what) {
  if (!G->tcp_mode) sync_activity();
  auto it = G->live.find(session);
  if (it == G->live.end()) { fail("%s handler called with session %p that is not live", what, (void *)session); return nullptr; }
  Key k = key_of(session);
  if (!(k == it->second.key)) fail("session announced for %s now serves %s", it->second.key.str().c_str(), k.str().c_str());
  return &it->second;
}

void h_plain(coap_resource_t *, coap_session_t *session, const coap_pdu_t *, const coap_string_t *, coap_pdu_t *response) {
  check_handler_session(session, "plain");
  coap_pdu_set_code(response, COAP_RESPONSE_CODE_CONTENT);
  coap_add_data(response, 2, (const uint8_t *)"ok");
}

void h_hold(coap_resource_t *, coap_session_t *session, const coap_pdu_t *, const coap_string_t *, coap_pdu_t *response) {
  SModel *m = check_handler_session(session, "hold");
  if (m && G->held.size() < 64) {
    coap_session_reference(session);
    G->held.push_back(session);
    m->app_refs++;
    G->held_total++;
  }
  coap_pdu_set_code(response, COAP_RESPONSE_CODE_CHANGED);
}

// block-wise transfers hanging off a session: a 300 byte representation served with coap_add_data_large_response() and a resource that takes uploads
void release_big(coap_session_t *, void *app_ptr) { free(app_ptr); if (G) G->big_released++; }
void h_big(coap_resource_t *resource, coap_session_t *session, const coap_pdu_t *request, const coap_string_t *query, coap_pdu_t *response) {
  check_handler_session(session, "big");
  coap_pdu_set_code(response, COAP_RESPONSE_CODE_CONTENT);
  uint8_t *body = (uint8_t *)malloc(300);
  for (unsigned i = 0; i < 300; i++) body[i] = (uint8_t)('a' + i % 23);
  G->big_given++;
  if (!coap_add_data_large_response(resource, session, request, response, query, COAP_MEDIATYPE_TEXT_PLAIN, -1, 0, 300, body, release_big, body))
    coap_pdu_set_code(response, COAP_RESPONSE_CODE_INTERNAL_ERROR);
}
void h_up(coap_resource_t *, coap_session_t *session, const coap_pdu_t *, const coap_string_t *, coap_pdu_t *response) {
  check_handler_session(session, "up");
  coap_pdu_set_code(response, COAP_RESPONSE_CODE_CHANGED);
}

void h_sep(coap_resource_t *, coap_session_t *session, const coap_pdu_t *request, const coap_string_t *query, coap_pdu_t *response) {
  SModel *m = check_handler_session(session, "async");
  uint32_t delay = 1000;
  if (query && query->length > 2) delay = (uint32_t)atoi(std::string((const char *)query->s + 2, query->length - 2).c_str());
  coap_async_t *async = coap_find_async(session, coap_pdu_get_token(request));
  if (!async) {
    async = coap_register_async(session, request, (coap_tick_t)delay);
    if (async) { if (m) m->async_pending++; G->async_total++; return; }
  } else if (m && m->async_pending > 0) m->async_pending--;
  coap_pdu_set_code(response, COAP_RESPONSE_CODE_CONTENT);
  coap_add_data(response, 4, (const uint8_t *)"late");
}

void h_obs(coap_resource_t *, coap_session_t *session, const coap_pdu_t *request, const coap_string_t *, coap_pdu_t *response) {
  SModel *m = check_handler_session(session, "observe");
  coap_opt_iterator_t oi;
  coap_opt_t *o = coap_check_option(request, COAP_OPTION_OBSERVE, &oi);
  if (m && o) {
    coap_bin_const_t tk = coap_pdu_get_token(request);
    std::vector<uint8_t> tok(tk.s, tk.s + tk.length);
    if (coap_opt_length(o) == 0) m->obs_tokens.insert(tok);
    // (a cancellation is left in the set: an observation the model is unsure about only relaxes obligations)
  }
  coap_pdu_set_code(response, COAP_RESPONSE_CODE_CONTENT);
  char b[16];
  int n = snprintf(b, sizeof b, "%u", G->obs_state);
  coap_add_data(response, (size_t)n, (const uint8_t *)b);
}

coap_response_t c_resp(coap_session_t *, const coap_pdu_t *, const coap_pdu_t *, const coap_mid_t) { return COAP_RESPONSE_OK; }

// ---- (C) TCP server, scripted stream peers: connect, CSM, complete / partial messages, Ping / Release / Abort, close, teardown at any point ----
void tcp_scenario(Tape &t, Case &cs, Info *info, std::vector<std::string> &history) {
  World w;
  cs.w = &w;
  seed_prng(t.u16());
  unsigned to_s = t.pick({2, 2}) ? t.range(1, 6) : 0;
  cs.timeout_ms = to_s ? to_s * 1000ull : 300000ull;
  unsigned nops = t.range(3, 30);
  bool settle_before_teardown = t.chance(128);
  coap_context_t *sctx = coap_new_context(nullptr);
  if (!sctx) return;
  cs.sctx = sctx;
  coap_register_event_handler(sctx, event_handler);
  if (to_s) coap_context_set_session_timeout(sctx, to_s);
  Addr srv = Addr::v4(10, 0, 0, 1, 5683);
  {
    coap_address_t la;
    srv.to_coap(&la);
    coap_new_endpoint(sctx, &la, COAP_PROTO_TCP);
  }
  struct { const char *name; coap_method_handler_t h; } RES[] = {{"plain", h_plain}, {"hold", h_hold}, {"sep", h_sep}};
  for (auto &r : RES) {
    coap_resource_t *res = coap_resource_init(coap_make_str_const(r.name), 0);
    coap_register_handler(res, COAP_REQUEST_GET, r.h);
    coap_add_resource(sctx, res);
  }
  w.add_context(sctx);
  struct Conn { StreamPeer *sp = nullptr; bool closed = false; std::vector<uint8_t> rest; };
  std::vector<Conn> conns;
  auto frame = [](uint8_t code, const std::vector<uint8_t> &token, const char *path, const std::string &query) {
    ref::Msg m;
    m.code = code;
    m.token = token;
    if (path) m.opts.push_back(ref::Opt{11, std::vector<uint8_t>(path, path + strlen(path))});
    if (!query.empty()) m.opts.push_back(ref::Opt{15, std::vector<uint8_t>(query.begin(), query.end())});
    return ref::encode(m, ref::F_TCP);
  };
  unsigned partials = 0, signals = 0, closes = 0;
  for (unsigned i = 0; i < nops && !cs.violated; i++) {
    char hb[96];
    size_t op = conns.empty() ? 0 : t.pick({3, 6, 3, 2, 2, 3, 3, 2, 1});
    Conn *c = conns.empty() ? nullptr : &conns[t.range(0, (uint32_t)conns.size() - 1)];
    switch (op) {
    case 0: {  // a new connection (its own source port), usually followed by the peer's CSM
      if (conns.size() >= 8) { snprintf(hb, sizeof hb, "noop"); break; }
      Conn n;
      n.sp = w.add_stream_peer(Addr::v4(10, 0, 2, (uint8_t)(1 + conns.size() % 3), (uint16_t)(40000 + conns.size())), false);
      w.stream_connect(n.sp, srv);
      bool csm = t.chance(224);
      if (csm) { std::vector<uint8_t> b = frame(0xE1, {}, nullptr, ""); w.stream_send(n.sp, b, {b.size()}); }
      conns.push_back(n);
      snprintf(hb, sizeof hb, "connect(c%zu%s)", conns.size() - 1, csm ? ",csm" : "");
      break;
    }
    case 1: case 2: {  // a request: complete (1) or only its first k bytes now (2)
      if (c->closed || !c->rest.empty()) { snprintf(hb, sizeof hb, "noop"); break; }
      size_t kind = t.pick({4, 2, 2});
      std::vector<uint8_t> token = {(uint8_t)i, (uint8_t)(c - &conns[0])};
      std::vector<uint8_t> b = frame(1, token, kind == 0 ? "plain" : kind == 1 ? "hold" : "sep", kind == 2 ? "d=" + std::to_string(t.pick({1, 1}) ? t.range(1, 3000) : t.range(3000, 40000)) : "");
      size_t k = op == 1 ? b.size() : t.range(1, (uint32_t)b.size() - 1);
      w.stream_send(c->sp, std::vector<uint8_t>(b.begin(), b.begin() + (long)k), {k});
      c->rest.assign(b.begin() + (long)k, b.end());
      if (op == 2) partials++;
      snprintf(hb, sizeof hb, "%s(c%zu,%s,%zu/%zuB)", op == 1 ? "request" : "partial", (size_t)(c - &conns[0]), kind == 0 ? "plain" : kind == 1 ? "hold" : "sep", k, b.size());
      break;
    }
    case 3:  // the rest of a message begun earlier
      if (c->closed || c->rest.empty()) { snprintf(hb, sizeof hb, "noop"); break; }
      w.stream_send(c->sp, c->rest, {c->rest.size()});
      c->rest.clear();
      snprintf(hb, sizeof hb, "complete(c%zu)", (size_t)(c - &conns[0]));
      break;
    case 4: {  // signalling: Ping, Release, Abort (between messages only)
      if (c->closed || !c->rest.empty()) { snprintf(hb, sizeof hb, "noop"); break; }
      static const uint8_t SIG[] = {0xE2, 0xE4, 0xE5};
      uint8_t code = SIG[t.pick({2, 2, 2})];
      std::vector<uint8_t> b = frame(code, {}, nullptr, "");
      w.stream_send(c->sp, b, {b.size()});
      signals++;
      snprintf(hb, sizeof hb, "signal(c%zu,7.%02u)", (size_t)(c - &conns[0]), code & 31);
      break;
    }
    case 5:  // the peer closes, possibly in the middle of a message
      if (c->closed) { snprintf(hb, sizeof hb, "noop"); break; }
      w.stream_close(c->sp);
      c->closed = true;
      cs.closed_at[c->sp->addr] = w.now;
      closes++;
      snprintf(hb, sizeof hb, "close(c%zu%s)", (size_t)(c - &conns[0]), c->rest.empty() ? "" : ",mid-message");
      break;
    case 6: { uint32_t ms = t.range(0, 50); w.run(w.now + ms, 8000); snprintf(hb, sizeof hb, "io(%ums)", ms); break; }
    case 7: {
      uint32_t ms = t.pick({2, 2}) ? t.range(0, 2000) : (uint32_t)(cs.timeout_ms > 3000 ? cs.timeout_ms - 3000 + t.range(0, 6000) : t.range(0, 6000));
      w.run(w.now + ms, 20000);
      snprintf(hb, sizeof hb, "time(+%ums)", ms);
      break;
    }
    default:  // the application gives back a reference taken by the "hold" handler
      if (cs.held.empty()) { snprintf(hb, sizeof hb, "noop"); break; }
      {
        size_t k = t.range(0, (uint32_t)cs.held.size() - 1);
        coap_session_t *s = cs.held[k];
        cs.held.erase(cs.held.begin() + (long)k);
        auto it = cs.live.find(s);
        if (it != cs.live.end()) it->second.app_refs--;
        coap_session_release(s);
        snprintf(hb, sizeof hb, "release");
      }
      break;
    }
    history.push_back(hb);
  }
  if (!cs.violated && settle_before_teardown) {
    w.run(w.now + 200, 20000);
    history.push_back("settle");
    // a connection the peer closed at least 100 ms ago, with nothing referring to its session, has been reclaimed
    for (auto &kv : cs.live) {
      auto ca = cs.closed_at.find(kv.second.key.remote);
      if (ca != cs.closed_at.end() && ca->second + 100 <= w.now && kv.second.app_refs == 0 && kv.second.async_pending == 0 && !cs.violated)
        fail("connection %s was closed by the peer at %llu and nothing refers to its session, but it is still there at %llu", kv.second.key.str().c_str(), (unsigned long long)ca->second, (unsigned long long)w.now);
    }
  }
  unsigned live_before = (unsigned)cs.live.size();
  cs.tearing_down = true;
  for (auto s : cs.held) coap_session_release(s);
  cs.held.clear();
  w.remove_context(sctx);
  coap_free_context(sctx);
  if (!cs.violated) {
    if (!cs.live.empty()) fail("%zu session(s) announced by SERVER_SESSION_NEW never got SERVER_SESSION_DEL (first: %s); %u NEW, %u DEL", cs.live.size(), cs.live.begin()->second.key.str().c_str(), cs.news, cs.dels);
    else if (cs.news != cs.dels) fail("%u SERVER_SESSION_NEW but %u SERVER_SESSION_DEL events", cs.news, cs.dels);
  }
  info->nontrivial = cs.news >= 1 && (partials || signals || closes || cs.held_total || cs.async_total);
  info->label("C:stream-transport");
  if (partials) info->label("C:partial-message");
  if (signals) info->label("C:signalling");
  if (closes) info->label("C:peer-close");
  if (cs.held_total) info->label("app-reference");
  if (cs.async_total) info->label("async");
  if (live_before) info->label("teardown-with-live-sessions");
  if (w.hit_cap) info->inconclusive = true;
  std::string h = "TCP; ";
  for (auto &x : history) { h += x; h += " "; }
  info->rs(h);
  info->rs(";");
  {
    std::string ev;
    size_t n = 0;
    for (auto &e : w.trace) if (e.kind == EV_CALLBACK) { if (n++ > 40) { ev += " ..."; break; } ev += " @" + std::to_string(e.t) + " " + e.note + ";"; }
    info->rs(ev);
  }
  info->mix(h.data(), h.size());
  for (auto &e : w.trace) if (e.kind == EV_CALLBACK) { info->mixu(e.t); info->mix(e.note.data(), e.note.size()); }
}

}  // namespace

void verif_init() {
  coap_startup();
  coap_set_log_level(getenv("C12_DEBUG") ? COAP_LOG_DEBUG : COAP_LOG_EMERG);
}

int verif_case(const uint8_t *tape, size_t tlen, Info *info) {
  Tape t(tape, tlen);
  Case cs;
  cs.info = info;
  G = &cs;
  A.reset();
  A.enabled = true;
  int verdict = HELD;
  std::vector<std::string> history;
  // (C) a quarter of the cases (decided by the LAST byte of the tape, so that earlier tapes keep the meaning of their plans) exercise the
  // life of sessions on a stream transport instead
  cs.tcp_mode = tlen >= 2 && tape[tlen - 1] >= 192;
  if (cs.tcp_mode) tcp_scenario(t, cs, info, history);
  else {
    World w;
    cs.w = &w;
    // (second last tape byte) the clock moves on while libcoap works: every 2nd..14th reading finds it a millisecond later, so that a time stamp taken
    // inside a call can lie after the 'now' the caller passed in
    if (tlen >= 48 && tape[tlen - 2] < 80) { w.creep_every = 2 + tape[tlen - 2] % 13; info->label("clock-advances-inside-calls"); }
    seed_prng(t.u16());
    // ---- configuration ----
    unsigned to_s = 0;
    switch (t.pick({2, 3, 2})) { case 0: to_s = 0; break; case 1: to_s = t.range(1, 6); break; default: to_s = t.range(7, 30); break; }
    cs.timeout_ms = to_s ? to_s * 1000ull : 300000ull;
    cs.max_idle = t.pick({2, 3}) ? t.range(1, 5) : 0;
    unsigned neps = (unsigned)t.pick({2, 1}) + 1;
    unsigned npeers = t.pick({1, 2, 2}) == 0 ? t.range(1, 3) : t.range(3, 50);
    bool with_client = t.chance(80);
    unsigned nops = t.range(3, 40);
    bool settle_before_teardown = t.chance(128);
    bool free_client_first = t.flag();
    coap_context_t *sctx = coap_new_context(nullptr);
    if (!sctx) { G = nullptr; A.enabled = false; return OUT_OF_DOMAIN; }
    cs.sctx = sctx;
    coap_register_event_handler(sctx, event_handler);
    if (to_s) coap_context_set_session_timeout(sctx, to_s);
    if (cs.max_idle) coap_context_set_max_idle_sessions(sctx, cs.max_idle);
    for (unsigned e = 0; e < neps; e++) {
      coap_address_t la;
      Addr::v4(10, 0, 0, 1, (uint16_t)(5683 + e)).to_coap(&la);
      coap_new_endpoint(sctx, &la, COAP_PROTO_UDP);
    }
    struct { const char *name; coap_method_handler_t h; } RES[] = {{"plain", h_plain}, {"hold", h_hold}, {"sep", h_sep}, {"obs", h_obs}};
    for (auto &r : RES) {
      coap_resource_t *res = coap_resource_init(coap_make_str_const(r.name), 0);
      coap_register_handler(res, COAP_REQUEST_GET, r.h);
      if (r.h == h_obs) { coap_resource_set_get_observable(res, 1); cs.obs_res = res; }
      coap_add_resource(sctx, res);
    }
    // (third last tape byte; draws from the END of the tape) block-wise transfers hang off the sessions: libcoap serves a 300 byte representation in
    // 64 byte blocks and re-assembles uploads; the peers ask for first and following blocks (with no, the right or a foreign ETag), upload some blocks
    // of a body and stop, and whatever state exists is there when sessions are reclaimed and when the context is freed
    bool blockwise = tlen >= 48 && tape[tlen - 3] < 110;
    std::vector<uint8_t> rev3(tape, tape + (tlen >= 48 ? tlen - 3 : 0));
    std::reverse(rev3.begin(), rev3.end());
    Tape tb3(rev3.data(), rev3.size());
    if (blockwise) {
      coap_context_set_block_mode(sctx, COAP_BLOCK_USE_LIBCOAP | (tb3.flag() ? COAP_BLOCK_SINGLE_BODY : 0));
      coap_context_set_max_block_size(sctx, 64);
      coap_resource_t *res = coap_resource_init(coap_make_str_const("big"), 0);
      coap_register_handler(res, COAP_REQUEST_GET, h_big);
      coap_add_resource(sctx, res);
      res = coap_resource_init(coap_make_str_const("up"), 0);
      coap_register_handler(res, COAP_REQUEST_PUT, h_up);
      coap_add_resource(sctx, res);
      info->label("block-wise-transfers");
    }
    w.add_context(sctx);
    coap_context_t *cctx = nullptr;
    std::vector<coap_session_t *> csess;
    if (with_client) {
      cctx = coap_new_context(nullptr);
      if (cctx) { coap_register_response_handler(cctx, c_resp); w.add_context(cctx); }
    }
    struct PeerState { Peer *p; bool mute = false; bool rst_next = false; unsigned seq = 0; std::vector<uint8_t> obs_token; std::vector<uint8_t> last_etag; unsigned up_next = 0; };
    std::vector<PeerState> peers(npeers);
    for (unsigned i = 0; i < npeers; i++) {
      peers[i].p = w.add_peer(Addr::v4(10, 0, 2, (uint8_t)(10 + i % 7), (uint16_t)(40000 + i / 7)));
      peers[i].p->on_rx = [&peers, i](World &ww, Peer &p, const Datagram &d) {
        ref::Msg m;
        if (simh::parse(d.data, &m)) if (const ref::Opt *et = simh::find_opt(m, 4)) peers[i].last_etag = et->val;
        if (peers[i].rst_next && simh::parse(d.data, &m) && m.code >= 64 && m.type <= 1 && simh::find_opt(m, 6) && !G->req_mids.count(m.mid)) {
          // not interested any more: Reset in reply to a notification (RFC 7641 3.6)
          peers[i].rst_next = false;
          ww.peer_send(&p, d.src, simh::rst(m.mid));
          return;
        }
        if (d.data.size() >= 4 && (d.data[0] & 0x30) == 0x00 && d.data[1] != 0 && !peers[i].mute) ww.peer_send(&p, d.src, simh::ack((uint16_t)(d.data[2] << 8 | d.data[3])));
      };
    }
    uint16_t next_mid = 0x3000;
    auto peer_request = [&](unsigned p, unsigned ep, const char *path, bool con, int observe, const std::vector<uint8_t> &token, const std::string &query) {
      ref::Msg m;
      m.type = con ? 0 : 1;
      m.code = 1;
      m.mid = next_mid++;
      cs.req_mids.insert(m.mid);
      m.token = token;
      if (observe >= 0) m.opts.push_back(ref::Opt{6, observe ? std::vector<uint8_t>{(uint8_t)observe} : std::vector<uint8_t>{}});
      m.opts.push_back(ref::Opt{11, std::vector<uint8_t>(path, path + strlen(path))});
      if (!query.empty()) m.opts.push_back(ref::Opt{15, std::vector<uint8_t>(query.begin(), query.end())});
      w.peer_send(peers[p].p, Addr::v4(10, 0, 0, 1, (uint16_t)(5683 + ep)), ref::encode(m, ref::F_UDP));
    };
    // after each run: certainly idle sessions whose timeout (plus slack) has passed must be gone
    auto reclaim_check = [&]() {
      if (cs.violated) return;
      sync_activity();
      explain_pending_del(false);
      for (auto &kv : cs.live) {
        SModel &m = kv.second;
        if (!sure_idle(m, w.now)) continue;
        uint64_t due = std::max(std::max(m.last_activity + cs.timeout_ms, m.idle_since), m.maybe_until);
        if (w.now >= due + 1000) {
          fail("session %s is unreferenced and idle since %llu (timeout %llu ms) but still exists at %llu", m.key.str().c_str(), (unsigned long long)m.last_activity,
               (unsigned long long)cs.timeout_ms, (unsigned long long)w.now);
          return;
        }
      }
    };
    // ---- history ----
    int big_p = -1, up_p = -1;
    unsigned big_ep = 0, up_ep = 0;
    for (unsigned k = 0; k < nops && !cs.violated && !w.hit_cap; k++) {
      char hb[128];
      unsigned p = t.range(0, npeers - 1);
      // new peers early on, so that many sessions exist
      if (t.chance(140)) p = std::min(npeers - 1, k);
      size_t op = t.pick({10, 5, 3, 2, 1, 3, 1, 2, 2, 2, 3});
      if (op == 9) { peers[p].rst_next = true; snprintf(hb, sizeof hb, "rst-next(p%u)", p); history.push_back(hb); continue; }
      if (op == 10) {  // datagrams that the server takes in without sending anything back: the peer is not idle all the same
        unsigned ep = t.range(0, neps - 1);
        size_t kind = t.pick({3, 1, 1});
        ref::Msg m;
        m.mid = next_mid++;
        if (kind == 0) {
          m.type = 1; m.code = 1; m.token = {(uint8_t)p, (uint8_t)peers[p].seq++, 9};
          m.opts.push_back(ref::Opt{11, {'p', 'l', 'a', 'i', 'n'}});
          m.opts.push_back(ref::Opt{258, {26}});   // No-Response: suppress 2.xx, 4.xx, 5.xx
        } else { m.type = kind == 1 ? 2 : 3; m.code = 0; m.mid = (uint16_t)(0x7000 + t.range(0, 255)); }
        w.peer_send(peers[p].p, Addr::v4(10, 0, 0, 1, (uint16_t)(5683 + ep)), ref::encode(m, ref::F_UDP));
        cs.oneway++;
        snprintf(hb, sizeof hb, "oneway(p%u,ep%u,%s)", p, ep, kind == 0 ? "NON+No-Response" : kind == 1 ? "ACK" : "RST");
        history.push_back(hb);
        continue;
      }
      if (op == 8) {  // composite: a burst of plain requests from a run of (mostly new) peers
        unsigned n = t.range(2, 30), first = t.range(0, npeers - 1), ep = t.range(0, neps - 1);
        for (unsigned i = 0; i < n; i++) {
          unsigned q = (first + i) % npeers;
          peer_request(q, ep, "plain", false, -1, {(uint8_t)q, (uint8_t)peers[q].seq++, 0}, "");
        }
        snprintf(hb, sizeof hb, "burst(p%u..+%u,ep%u)", first, n, ep);
        history.push_back(hb);
        continue;
      }
      switch (op) {
      case 0: {
        unsigned ep = t.range(0, neps - 1);
        bool con = t.flag();
        size_t kind = t.pick({5, 3, 2, 2});
        if (blockwise && tb3.chance(100)) {
          ref::Msg m;
          m.type = con ? 0 : 1;
          m.mid = next_mid++;
          cs.req_mids.insert(m.mid);
          m.token = {(uint8_t)p, (uint8_t)peers[p].seq++, 0x20};
          size_t what = tb3.pick({3, 4, 3});
          // following blocks and further upload blocks mostly come from the peer that began a transfer (to the same endpoint)
          if (what == 1 && big_p >= 0 && tb3.chance(200)) { p = (unsigned)big_p; ep = big_ep; m.token[0] = (uint8_t)p; }
          if (what == 2 && up_p >= 0 && tb3.chance(160)) { p = (unsigned)up_p; ep = up_ep; m.token[0] = (uint8_t)p; }
          if (what == 0) { big_p = (int)p; big_ep = ep; }
          if (what == 2) { up_p = (int)p; up_ep = ep; }
          if (what == 0) {          // first block of the representation
            m.code = 1;
            m.opts.push_back(ref::Opt{11, {'b', 'i', 'g'}});
            m.opts.push_back(ref::Opt{23, simh::uint_opt(2)});   // Block2 0/0/64: the peer asks for 64 byte blocks
            snprintf(hb, sizeof hb, "get-big(p%u,ep%u,%s)", p, ep, con ? "CON" : "NON");
          } else if (what == 1) {   // a following block, in or out of order
            unsigned num = tb3.range(1, 5);
            size_t ev = tb3.pick({3, 1, 2});
            m.code = 1;
            if (ev == 1 && !peers[p].last_etag.empty()) m.opts.push_back(ref::Opt{4, peers[p].last_etag});
            if (ev == 2) m.opts.push_back(ref::Opt{4, {0x7e, (uint8_t)p}});
            m.opts.push_back(ref::Opt{11, {'b', 'i', 'g'}});
            m.opts.push_back(ref::Opt{23, simh::uint_opt(num << 4 | 2)});
            snprintf(hb, sizeof hb, "get-big-block(p%u,ep%u,#%u,etag:%s)", p, ep, num, ev == 0 ? "-" : ev == 1 ? "seen" : "foreign");
          } else {                  // the next block of an upload (four blocks make the body; the peer may stop anywhere, or start again)
            if (tb3.chance(40)) peers[p].up_next = 0;
            unsigned num = peers[p].up_next++;
            bool more = num < 3;
            m.code = 3;
            m.opts.push_back(ref::Opt{11, {'u', 'p'}});
            m.opts.push_back(ref::Opt{27, simh::uint_opt(num << 4 | (more ? 8 : 0) | 2)});
            m.payload.assign(more ? 64 : 20, (uint8_t)('A' + num));
            if (!more) peers[p].up_next = 0;
            snprintf(hb, sizeof hb, "put-up-block(p%u,ep%u,#%u%s)", p, ep, num, more ? ",more" : ",last");
          }
          w.peer_send(peers[p].p, Addr::v4(10, 0, 0, 1, (uint16_t)(5683 + ep)), ref::encode(m, ref::F_UDP));
          cs.transfers++;
          break;
        }
        std::vector<uint8_t> token = {(uint8_t)p, (uint8_t)peers[p].seq++, (uint8_t)kind};
        if (kind == 2) peer_request(p, ep, "sep", con, -1, token, "d=" + std::to_string(t.pick({1, 1}) ? t.range(1, 3000) : t.range(3000, 40000)));
        else if (kind == 3) { peers[p].obs_token = token; peer_request(p, ep, "obs", con, 0, token, ""); }
        else peer_request(p, ep, kind == 0 ? "plain" : "hold", con, -1, token, "");
        snprintf(hb, sizeof hb, "req(p%u,ep%u,%s,%s)", p, ep, RES[kind].name, con ? "CON" : "NON");
        break;
      }
      case 1: {
        uint64_t ms;
        switch (t.pick({3, 4, 2})) {
        case 0: ms = t.range(0, 2000); break;
        case 1: ms = cs.timeout_ms > 3000 ? cs.timeout_ms - 3000 + t.range(0, 6000) : t.range(0, 6000); break;
        default: ms = cs.timeout_ms * t.range(2, 4); break;
        }
        w.run(w.now + ms, 40000);
        reclaim_check();
        snprintf(hb, sizeof hb, "advance(%llums)", (unsigned long long)ms);
        break;
      }
      case 2:
        if (!cs.held.empty()) {
          size_t i = t.range(0, (uint32_t)cs.held.size() - 1);
          coap_session_t *s = cs.held[i];
          // the reference keeps the session valid: reading it must be fine (ASan would tell)
          (void)key_of(s);
          auto it = cs.live.find(s);
          if (it != cs.live.end()) { it->second.app_refs--; if (it->second.app_refs == 0) it->second.idle_since = w.now; }
          coap_session_release(s);
          cs.held.erase(cs.held.begin() + (long)i);
        }
        snprintf(hb, sizeof hb, "release");
        break;
      case 3:
        cs.obs_state++;
        coap_resource_notify_observers(cs.obs_res, nullptr);
        snprintf(hb, sizeof hb, "change");
        break;
      case 4:
        if (!peers[p].obs_token.empty()) peer_request(p, 0, "obs", true, 1, peers[p].obs_token, "");
        snprintf(hb, sizeof hb, "cancel(p%u)", p);
        break;
      case 5: { uint32_t ms = t.range(0, 50); w.run(w.now + ms, 8000); reclaim_check(); snprintf(hb, sizeof hb, "io(%ums)", ms); break; }
      case 6: peers[p].mute = !peers[p].mute; snprintf(hb, sizeof hb, "mute(p%u)=%d", p, peers[p].mute); break;
      default:
        if (cctx) {
          cs.client_ops++;
          size_t what = t.pick({2, 4, 2});
          if (what == 0 && csess.size() < 2) {
            coap_address_t dst;
            Addr::v4(10, 0, 0, 1, (uint16_t)(5683 + t.range(0, neps - 1))).to_coap(&dst);
            coap_session_t *s = coap_new_client_session(cctx, nullptr, &dst, COAP_PROTO_UDP);
            if (s) csess.push_back(s);
            snprintf(hb, sizeof hb, "client-new");
          } else if (what == 2 && !csess.empty()) {
            // the application drops its reference - possibly with a request still outstanding
            size_t i = t.range(0, (uint32_t)csess.size() - 1);
            coap_session_release(csess[i]);
            csess.erase(csess.begin() + (long)i);
            snprintf(hb, sizeof hb, "client-release");
          } else if (!csess.empty()) {
            coap_session_t *s = csess[t.range(0, (uint32_t)csess.size() - 1)];
            bool con = t.flag();
            size_t kind = t.pick({3, 2, 1});
            coap_pdu_t *pdu = coap_new_pdu(con ? COAP_MESSAGE_CON : COAP_MESSAGE_NON, COAP_REQUEST_CODE_GET, s);
            if (pdu) {
              uint8_t tk[8];
              size_t tl = 0;
              coap_session_new_token(s, &tl, tk);
              coap_add_token(pdu, tl, tk);
              const char *path = kind == 0 ? "plain" : kind == 1 ? "sep" : "hold";
              coap_add_option(pdu, COAP_OPTION_URI_PATH, strlen(path), (const uint8_t *)path);
              if (kind == 1) coap_add_option(pdu, COAP_OPTION_URI_QUERY, 6, (const uint8_t *)"d=2000");
              coap_send(s, pdu);
            }
            snprintf(hb, sizeof hb, "client-req(%s,%s)", kind == 0 ? "plain" : kind == 1 ? "sep" : "hold", con ? "CON" : "NON");
          } else snprintf(hb, sizeof hb, "client-noop");
        } else snprintf(hb, sizeof hb, "noop");
        break;
      }
      history.push_back(hb);
    }
    if (!cs.violated && settle_before_teardown) { w.run(w.now + 200, 20000); reclaim_check(); history.push_back("settle"); }
    // ---- teardown at this point ----
    explain_pending_del(false);
    unsigned live_before = (unsigned)cs.live.size();
    cs.tearing_down = true;
    for (auto s : cs.held) coap_session_release(s);   // precondition of coap_free_context(): the application gave its references back
    cs.held.clear();
    for (auto s : csess) coap_session_release(s);
    csess.clear();
    if (cctx && free_client_first) { w.remove_context(cctx); coap_free_context(cctx); cctx = nullptr; }
    w.remove_context(sctx);
    coap_free_context(sctx);
    if (cctx) { w.remove_context(cctx); coap_free_context(cctx); }
    if (!cs.violated) {
      if (!cs.live.empty()) fail("%zu session(s) announced by SERVER_SESSION_NEW never got SERVER_SESSION_DEL (first: %s); %u NEW, %u DEL", cs.live.size(), cs.live.begin()->second.key.str().c_str(), cs.news, cs.dels);
      else if (cs.news != cs.dels) fail("%u SERVER_SESSION_NEW but %u SERVER_SESSION_DEL events", cs.news, cs.dels);
    }
    info->nontrivial = cs.news >= 3 && (cs.reclaimed || cs.evictions || cs.held_total || cs.async_total);
    if (cs.reclaimed) info->label("timeout-reclaim");
    if (cs.evictions) info->label("idle-limit-eviction");
    if (cs.held_total) info->label("app-reference");
    if (cs.async_total) info->label("async");
    if (cs.client_ops) info->label("client-context");
    if (cs.obs_rst) info->label("observation-ended-by-rst");
    if (cs.oneway) info->label("one-way-datagrams");
    if (live_before) info->label("teardown-with-live-sessions");
    if (cs.news >= 20) info->label("20+sessions");
    if (w.hit_cap) info->inconclusive = true;
    std::string h;
    for (auto &s : history) { h += s; h += " "; }
    char cfg[96];
    snprintf(cfg, sizeof cfg, "timeout=%llus max_idle=%u eps=%u peers=%u; ", (unsigned long long)(cs.timeout_ms / 1000), cs.max_idle, neps, npeers);
    info->rs(cfg);
    info->rs(h);
    info->rs(";");
    {
      std::string ev;
      size_t n = 0;
      for (auto &e : w.trace) if (e.kind == EV_CALLBACK) { if (n++ > 40) { ev += " ..."; break; } ev += " @" + std::to_string(e.t) + " " + e.note + ";"; }
      info->rs(ev);
    }
    info->mix(h.data(), h.size());
    for (auto &e : w.trace) if (e.kind == EV_CALLBACK) { info->mixu(e.t); info->mix(e.note.data(), e.note.size()); }
  }
  // ---- everything released? ----
  A.enabled = false;
  if (!cs.violated) {
    if (A.double_frees) fail("an object of libcoap memory type %d was released twice", A.double_free_type);
    else if (!A.live.empty()) {
      std::map<int, unsigned> by_type;
      for (auto &kv : A.live) by_type[kv.second.first]++;
      std::string s;
      for (auto &kv : by_type) s += " type " + std::to_string(kv.first) + " x" + std::to_string(kv.second);
      fail("after coap_free_context() %zu libcoap object(s) are still allocated:%s", A.live.size(), s.c_str());
    } else if (__lsan_do_recoverable_leak_check()) fail("LeakSanitizer reports memory that is no longer reachable after coap_free_context()");
    else if (cs.big_given != cs.big_released) fail("%u representations were handed to coap_add_data_large_response(), the release callback ran %u times by the time the context was freed", cs.big_given, cs.big_released);
  }
  if (cs.violated) verdict = VIOLATION;
  A.reset();
  G = nullptr;
  return verdict;
}
