// C20 — /.well-known/core lists exactly the registered resources in any window / filter.
#include "../sim/helpers.h"
#include "../ref/reflink.h"
#include <memory>
using namespace verif;

const char *verif_property_id = "C20";
const char *verif_rule =
    "tape -> resource table (0..12 resources; nested / empty / punctuated paths; 0..4 attributes each from {rt,if,rel,ct,sz,title,random token} "
    "with value absent / ptoken / quoted string with spaces (token list) / quoted empty; observable and OSCORE-only flags) and a query filter "
    "(absent, or name=pattern with name in {href, rt, if, rel, other attribute, unknown}, pattern exact / trailing '*' / leading '/' for href, "
    "taken from the table's own values, their prefixes, extensions and near misses). Oracle: full listing parses as RFC 6690 and equals the "
    "independent listing as a set of links with parameter multisets; then every (offset, buflen) window up to |L|+2 (exhaustive when |L| <= 96, "
    "otherwise all offsets x boundary buffer sizes and all buffer sizes x boundary offsets) must return exactly L[offset, offset+n), the exact total "
    "and TRUNC iff listing remains (buflen > 0); same for coap_print_link per resource. All strings live in exact-size heap blocks (ASan). "
    "Non-trivial = >=2 resources, >=1 attribute, |L| > 16 and a filter selecting a strict non-empty subset (or no filter with >=3 resources); "
    "distinct = by table + filter";
size_t verif_max_tape = 700;

void verif_init() {
  coap_startup();
  coap_set_log_level(COAP_LOG_EMERG);
}

namespace {

struct Blob {  // exact-size, unterminated heap string handed to libcoap without release flags
  coap_str_const_t sc;
  uint8_t *mem;
  explicit Blob(const std::string &s) {
    mem = (uint8_t *)malloc(s.size() ? s.size() : 1);
    if (!s.empty()) memcpy(mem, s.data(), s.size());
    sc.length = s.size();
    sc.s = mem;
  }
  ~Blob() { free(mem); }
};

void hnd(coap_resource_t *, coap_session_t *, const coap_pdu_t *, const coap_string_t *, coap_pdu_t *) {}

const char TOK[] = "abcdefghijklmnopqrstuvwxyz0123456789.-_:";

std::string gen_token(Tape &t, unsigned lo, unsigned hi) {
  std::string s;
  unsigned n = t.range(lo, hi);
  for (unsigned i = 0; i < n; i++) s += TOK[t.range(0, sizeof(TOK) - 2)];
  return s;
}

std::string gen_path(Tape &t) {
  switch (t.pick({6, 3, 1, 1, 1})) {
  case 0: return gen_token(t, 1, 6);
  case 1: return gen_token(t, 1, 4) + "/" + gen_token(t, 1, 4) + (t.flag() ? "/" + gen_token(t, 1, 3) : "");
  case 2: return "";
  case 3: return gen_token(t, 1, 3) + (t.flag() ? ",x" : ";y");
  default: return ".well-known/core";
  }
}

}  // namespace

int verif_case(const uint8_t *tape, size_t tlen, Info *info) {
  Tape t(tape, tlen);
  std::vector<reflink::Res> table;
  unsigned nres = (unsigned)t.pick({1, 2, 4, 4, 3, 2, 2, 1, 1, 1, 1, 1, 1});
  static const char *ANAMES[] = {"rt", "if", "rel", "ct", "sz", "title"};
  unsigned nattr_total = 0;
  for (unsigned i = 0; i < nres; i++) {
    reflink::Res r;
    r.path = gen_path(t);
    bool dup = false;
    for (auto &o : table) if (o.path == r.path) dup = true;
    if (dup) continue;  // registering the same path twice replaces the resource; keep the table simple
    unsigned na = (unsigned)t.pick({2, 4, 3, 2, 1});
    for (unsigned k = 0; k < na; k++) {
      reflink::Attr a;
      a.name = t.pick({5, 1}) ? gen_token(t, 1, 4) : ANAMES[t.range(0, 5)];
      bool have = false;
      for (auto &o : r.attrs) if (o.name == a.name) have = true;
      if (have || a.name == "obs" || a.name == "osc") continue;
      switch (t.pick({3, 4, 4, 1})) {
      case 0: a.has_value = false; break;
      case 1: a.has_value = true; a.value = gen_token(t, 1, 7); break;
      case 2: {
        a.has_value = true;
        unsigned nt = t.range(1, 4);
        std::string v;
        for (unsigned j = 0; j < nt; j++) { if (j) v += " "; v += gen_token(t, 1, 6); }
        a.value = "\"" + v + "\"";
        break;
      }
      default: a.has_value = true; a.value = "\"\""; break;
      }
      // RFC 6690: rt / if / rel carry at least one value; an empty list has no defined matching
      if ((a.name == "rt" || a.name == "if" || a.name == "rel") && a.has_value && a.value == "\"\"") a.value = "\"" + gen_token(t, 1, 3) + "\"";
      r.attrs.push_back(a);
      nattr_total++;
    }
    r.obs = t.chance(64);
    r.osc = t.chance(32);
    table.push_back(r);
  }
  // ---- filter ----
  reflink::Filter flt;
  std::string flt_text;
  bool in_domain = true;
  if (t.pick({1, 3})) {
    flt.present = true;
    // collect candidate (name, value-token) pairs from the table
    std::vector<std::pair<std::string, std::string>> cands;
    for (auto &r : table) {
      cands.push_back({"href", r.path});
      for (auto &a : r.attrs) {
        if (!a.has_value) { cands.push_back({a.name, ""}); continue; }
        std::string v = reflink::unquote(a.value);
        bool listy = a.name == "rt" || a.name == "if" || a.name == "rel";
        if (listy) {
          size_t st = 0;
          for (size_t i = 0; i <= v.size(); i++) if (i == v.size() || v[i] == ' ') { cands.push_back({a.name, v.substr(st, i - st)}); st = i + 1; }
        } else cands.push_back({a.name, v});
      }
    }
    std::string name, val;
    if (!cands.empty() && t.pick({1, 6})) {
      auto &c = cands[t.range(0, (uint32_t)cands.size() - 1)];
      name = c.first;
      val = c.second;
    } else {
      name = t.flag() ? ANAMES[t.range(0, 5)] : "zz";
      val = gen_token(t, 1, 4);
    }
    std::string pat;
    switch (t.pick({4, 3, 2, 2, 1, 1})) {
    case 0: pat = val; break;                                                     // exact
    case 1: pat = val.substr(0, t.range(0, (uint32_t)val.size())) + "*"; break;   // prefix of it
    case 2: pat = val + gen_token(t, 1, 3) + (t.flag() ? "*" : ""); break;        // longer than the value (near miss)
    case 3: pat = val + "*"; break;                                               // whole value as prefix
    case 4: pat = gen_token(t, 1, 5) + "*"; break;
    default: pat = val.empty() ? "x" : val.substr(0, val.size() - 1); break;      // proper prefix without wildcard
    }
    if (name == "href" && t.flag()) pat = "/" + pat;
    if (pat.empty()) pat = "*";
    // out of the stated domain: patterns containing a space (RFC 6690 matches single values)
    flt.name = name;
    flt.pattern = pat;
    flt_text = name + "=" + pat;
    if (t.chance(6)) { flt_text = name; in_domain = false; info->label("filter-without-="); }
  }
  std::string render = "table{";
  for (auto &r : table) {
    render += "</" + r.path + ">";
    for (auto &a : r.attrs) render += ";" + a.name + (a.has_value ? "=" + a.value : "");
    if (r.obs) render += ";obs";
    if (r.osc) render += ";osc";
    render += " ";
  }
  render += "} filter{" + (flt.present ? flt_text : std::string("-")) + "}";
  info->r("%s", render.c_str());
  info->mix(render.data(), render.size());

  // ---- build the real table ----
  sim::World w;   // the block-wise GET at the end goes through the simulated network
  coap_context_t *ctx = coap_new_context(nullptr);
  if (!ctx) return OUT_OF_DOMAIN;
  std::vector<std::unique_ptr<Blob>> blobs;
  std::vector<coap_resource_t *> resources;
  bool built = true;
  for (auto &r : table) {
    blobs.emplace_back(new Blob(r.path));
    coap_resource_t *res = coap_resource_init(&blobs.back()->sc, r.osc ? COAP_RESOURCE_FLAGS_OSCORE_ONLY : 0);
    if (!res) { built = false; break; }
    coap_register_handler(res, COAP_REQUEST_GET, hnd);
    for (auto &a : r.attrs) {
      blobs.emplace_back(new Blob(a.name));
      coap_str_const_t *n = &blobs.back()->sc;
      coap_str_const_t *v = nullptr;
      if (a.has_value) { blobs.emplace_back(new Blob(a.value)); v = &blobs.back()->sc; }
      if (!coap_add_attr(res, n, v, 0)) built = false;
    }
    if (r.obs) coap_resource_set_get_observable(res, 1);
    coap_add_resource(ctx, res);
    resources.push_back(res);
  }
  int verdict = HELD;
  bool plain_filter = true;
  bool shadowed = false;   // an application resource registered under the discovery path itself takes the GET
  for (auto &r : table) if (r.path == ".well-known/core") shadowed = true;
  std::string L;
  uint64_t windows = 0;
  coap_string_t *qf = nullptr;
  std::unique_ptr<Blob> qblob;
  coap_string_t qfs;
#define FAIL_IF(c) do { if (c) { verdict = VIOLATION; goto done; } } while (0)
  if (!built) { verdict = OUT_OF_DOMAIN; goto done; }
  if (flt.present) {
    qblob.reset(new Blob(flt_text));
    qfs.length = qblob->sc.length;
    qfs.s = qblob->mem;
    qf = &qfs;
  }
  {
    // ---- full listing ----
    size_t big = 8192;
    std::vector<uint8_t> buf(big, 0xA5);
    size_t bl = big;
    coap_print_status_t st = coap_print_wellknown(ctx, buf.data(), &bl, 0, qf);
    if (st & COAP_PRINT_STATUS_ERROR) { info->fail("coap_print_wellknown reports an error for the full listing"); FAIL_IF(1); }
    size_t n = COAP_PRINT_OUTPUT_LENGTH(st);
    if (n != bl) { info->fail("full listing: wrote %zu bytes but reports total %zu", n, bl); FAIL_IF(1); }
    if (st & COAP_PRINT_STATUS_TRUNC) { info->fail("full listing flagged truncated in a large buffer"); FAIL_IF(1); }
    L.assign((const char *)buf.data(), n);
    if (!in_domain) goto windows_only;
    std::vector<reflink::Link> got, want = reflink::listing(table, flt);
    if (!reflink::parse(L, &got)) { info->fail("listing is not RFC 6690 link-format: '%s'", L.c_str()); FAIL_IF(1); }
    if (!(got == want)) {
      std::string w;
      for (auto &l : want) { w += l.target; for (auto &p : l.params) w += ";" + p; w += ","; }
      info->fail("listing '%s' differs from the reference listing '%s'", L.c_str(), w.c_str());
      FAIL_IF(1);
    }
    size_t total_res = 0;
    for (auto &r : table) if (r.path != ".well-known/core") total_res++;
    info->nontrivial = table.size() >= 2 && nattr_total >= 1 && L.size() > 16 &&
                       ((flt.present && !want.empty() && want.size() < total_res) || (!flt.present && table.size() >= 3));
    if (flt.present) info->label(want.empty() ? "filter:selects-none" : want.size() < total_res ? "filter:strict-subset" : "filter:selects-all");
    else info->label("filter:none");
    if (flt.present) info->label(flt.name == "href" ? "filter:href" : (flt.name == "rt" || flt.name == "if" || flt.name == "rel") ? "filter:rt/if/rel" : "filter:other-attr");
  }
windows_only:
  {
    // ---- every window ----
    size_t len = L.size();
    bool exhaustive = len <= 96;
    static const size_t EDGE[] = {0, 1, 2, 3, 15, 16, 17, 63, 64, 65};
    for (size_t off = 0; off <= len + 2; off++) {
      for (size_t blen = 0; blen <= len + 2; blen++) {
        if (!exhaustive) {
          bool edge_b = false, edge_o = false;
          for (size_t e : EDGE) { if (blen == e) edge_b = true; if (off == e) edge_o = true; }
          size_t rem = len > off ? len - off : 0;
          if (blen + 1 == rem || blen == rem || blen == rem + 1 || blen == len + 2) edge_b = true;
          if (off + 1 == len || off == len || off == len + 1 || off == len + 2) edge_o = true;
          if (!edge_b && !edge_o) continue;
          if (len > 300 && !(edge_b && edge_o) && ((off * 31 + blen * 17) % 7) != 0) continue;  // thin out very long listings
        }
        windows++;
        uint8_t *wb = (uint8_t *)malloc(blen ? blen : 1);
        memset(wb, 0xA5, blen ? blen : 1);
        size_t bl = blen;
        coap_print_status_t st = coap_print_wellknown(ctx, wb, &bl, off, qf);
        size_t n = len > off ? std::min(blen, len - off) : 0;
        bool ok = true;
        if (st & COAP_PRINT_STATUS_ERROR) { info->fail("window (off %zu, len %zu): error status", off, blen); ok = false; }
        else if (COAP_PRINT_OUTPUT_LENGTH(st) != n) { info->fail("window (off %zu, len %zu) of %zu: wrote %u bytes, expected %zu", off, blen, len, (unsigned)COAP_PRINT_OUTPUT_LENGTH(st), n); ok = false; }
        else if (n && memcmp(wb, L.data() + off, n) != 0) { info->fail("window (off %zu, len %zu): bytes differ from the full listing", off, blen); ok = false; }
        else if (bl != len) { info->fail("window (off %zu, len %zu): reported total %zu, listing has %zu", off, blen, bl, len); ok = false; }
        else if (blen > 0 && ((st & COAP_PRINT_STATUS_TRUNC) != 0) != (off + n < len)) {
          info->fail("window (off %zu, len %zu) of %zu: TRUNC flag %s", off, blen, len, (st & COAP_PRINT_STATUS_TRUNC) ? "set although nothing remains" : "clear although listing remains");
          ok = false;
        } else {
          for (size_t i = n; i < blen; i++) if (wb[i] != 0xA5) { info->fail("window (off %zu, len %zu): byte %zu beyond the output was written", off, blen, i); ok = false; break; }
        }
        free(wb);
        FAIL_IF(!ok);
      }
    }
    info->count("windows", windows);
    if (exhaustive) info->count("tables_with_exhaustive_windows");
  }
  {
    // ---- coap_print_link per resource (exhaustive windows on the single link) ----
    size_t which = resources.empty() ? 0 : t.range(0, (uint32_t)resources.size() - 1);
    if (!resources.empty()) {
      const reflink::Res &r = table[which];
      uint8_t big[4096];
      size_t l = sizeof big, o = 0;
      coap_print_status_t st = coap_print_link(resources[which], big, &l, &o);
      size_t n = COAP_PRINT_OUTPUT_LENGTH(st);
      std::string link((const char *)big, n);
      std::vector<reflink::Link> got;
      if ((st & COAP_PRINT_STATUS_ERROR) || n != l || !reflink::parse(link, &got) || got.size() != 1 || !(got[0] == reflink::link_of(r))) {
        info->fail("coap_print_link output '%s' differs from the registered resource", link.c_str());
        FAIL_IF(1);
      }
      size_t len = link.size();
      if (len <= 64) {
        for (size_t off = 0; off <= len + 2; off++)
          for (size_t blen = 0; blen <= len + 2; blen++) {
            uint8_t *wb = (uint8_t *)malloc(blen ? blen : 1);
            size_t bl = blen, of = off;
            coap_print_status_t s2 = coap_print_link(resources[which], wb, &bl, &of);
            size_t want = len > off ? std::min(blen, len - off) : 0;
            bool ok = true;
            if ((s2 & COAP_PRINT_STATUS_ERROR) || COAP_PRINT_OUTPUT_LENGTH(s2) != want || (want && memcmp(wb, link.data() + off, want) != 0)) {
              info->fail("coap_print_link window (off %zu, len %zu): wrong bytes", off, blen); ok = false;
            } else if (bl != len) { info->fail("coap_print_link window (off %zu, len %zu): total %zu, link has %zu", off, blen, bl, len); ok = false; }
            else if (blen > 0 && ((s2 & COAP_PRINT_STATUS_TRUNC) != 0) != (off + want < len)) { info->fail("coap_print_link window (off %zu, len %zu): TRUNC flag wrong", off, blen); ok = false; }
            free(wb);
            windows++;
            FAIL_IF(!ok);
          }
        info->count("link_windows", (len + 3) * (len + 3));
      }
    }
  }
  // ---- a block-wise GET of the resource reassembles to the same listing (all Block2 sizes over the cases; one per case) ----
  // the filter travels as a Uri-Query option and comes back through coap_get_query(), which percent-encodes: only filters made of
  // characters that pass unchanged are sent over the wire
  plain_filter = flt_text.size() <= 200;
  for (char c : flt_text) if (!(isalnum((unsigned char)c) || strchr("=*/._~-", c))) plain_filter = false;
  if (verdict == HELD && !shadowed && (!flt.present || plain_filter)) {
    unsigned szx = (unsigned)(L.size() + table.size()) % 7;   // derived from the case, no extra draw: earlier tapes keep their meaning
    sim::Addr srv = sim::Addr::v4(10, 0, 0, 1, 5683);
    coap_address_t la;
    srv.to_coap(&la);
    if (coap_new_endpoint(ctx, &la, COAP_PROTO_UDP)) {
      w.add_context(ctx);
      sim::Peer *p = w.add_peer(sim::Addr::v4(10, 0, 8, 1, 47000));
      std::vector<ref::Msg> got;
      p->on_rx = [&](sim::World &, sim::Peer &, const sim::Datagram &d) { ref::Msg m; if (simh::parse(d.data, &m)) got.push_back(m); };
      std::string body;
      bool done_all = false, bad = false;
      for (unsigned num = 0; num < 600 && !done_all && !bad; num++) {
        ref::Msg m;
        m.type = 0; m.code = 1; m.mid = (uint16_t)(0x2200 + num); m.token = {0xc2, (uint8_t)num};
        m.opts.push_back(ref::Opt{11, {'.', 'w', 'e', 'l', 'l', '-', 'k', 'n', 'o', 'w', 'n'}});
        m.opts.push_back(ref::Opt{11, {'c', 'o', 'r', 'e'}});
        if (flt.present) m.opts.push_back(ref::Opt{15, std::vector<uint8_t>(flt_text.begin(), flt_text.end())});
        m.opts.push_back(ref::Opt{23, simh::uint_opt(num << 4 | szx)});
        got.clear();
        w.steps = 0;
        w.trace.clear();
        w.peer_send(p, srv, ref::encode(m, ref::F_UDP));
        w.run(w.now + 5, 4000);
        const ref::Msg *r = nullptr;
        for (auto &g : got) if (g.code != 0 && g.token == m.token) r = &g;
        if (!r) { info->fail("Block2 GET (szx %u): no response to block %u", szx, num); bad = true; break; }
        if (r->code != 0x45) {
          // an empty listing is answered 4.04 by design (nothing matches) - only then
          if (L.empty()) { done_all = true; break; }
          info->fail("Block2 GET (szx %u): block %u answered %u.%02u", szx, num, r->code >> 5, r->code & 31); bad = true; break;
        }
        const ref::Opt *b2 = simh::find_opt(*r, 23);
        body.append(r->payload.begin(), r->payload.end());
        if (!b2) { done_all = true; break; }
        uint32_t v = simh::opt_uint(b2->val);
        if ((v >> 4) != num) { info->fail("Block2 GET (szx %u): asked for block %u, got block %u", szx, num, v >> 4); bad = true; break; }
        if ((v & 7) > szx) { info->fail("Block2 GET: asked for szx %u, got szx %u", szx, v & 7); bad = true; break; }
        if ((v & 7) != szx) { szx = v & 7; /* the server chose a smaller size for block 0: continue in that size */ if (num != 0) { info->fail("Block2 GET: block size changed in the middle"); bad = true; break; } }
        if (!(v & 8)) done_all = true;
        else if (r->payload.size() != (16u << szx)) { info->fail("Block2 GET (szx %u): block %u has %zu bytes but more follow", szx, num, r->payload.size()); bad = true; break; }
      }
      w.remove_context(ctx);
      if (!bad && body != L) { info->fail("Block2 GET (szx %u): the reassembled body (%zu bytes) differs from the listing (%zu bytes)", szx, body.size(), L.size()); bad = true; }
      info->count("block2_gets", 1);
      if (bad) verdict = VIOLATION;
    }
  }
done:
  coap_free_context(ctx);
  return verdict;
}
