// C07 — each request concludes exactly once despite loss, duplication and delay.
// (A) libcoap client <-> scripted server; (B) libcoap client <-> libcoap server (direct and async separate responses).
#include "../sim/helpers.h"
using namespace verif;
using namespace sim;

const char *verif_property_id = "C07";
const char *verif_rule =
    "tape -> (A) libcoap UDP client against a scripted server: 1..6 requests (GET/PUT/POST/DELETE, CON/NON, token 0..8 bytes), one outstanding at a time "
    "(next request submitted 0..3 s after the previous concluded); server style per request in {piggybacked, empty ACK + separate CON, empty ACK + separate NON, "
    "separate CON without ACK, silent}, answering every received copy (retransmitted/duplicated requests get the same reply again); scripted response mids incl. 0 and "
    "reuse; per datagram fate deliver/drop/dup/delay < ACK_TIMEOUT; response handler verdict OK/FAIL from the tape; or (B) libcoap client against a libcoap server whose "
    "handler answers directly or through an async entry (coap_register_async with a delay, or - every second case - without a time and coap_async_trigger() by the application later), same fault plans. (B) also: the server application produces at most one response per request plus one per copy of the request that arrived after the first answer. Oracle per application token at quiescence: response-handler calls == "
    "(number of distinct-by-message-id ACK-piggybacked/CON responses delivered; at most 1 from the scripted server) + (number of NON response datagrams delivered); NACK(TOO_MANY_RETRIES) exactly once iff no ACK/response for "
    "the request was ever delivered, never both; no request transmission after a response was delivered; every delivered CON response answered by ACK (RST when the verdict was FAIL) "
    "with its mid, duplicates included. Non-trivial = a lost or duplicated datagram hit an ACK, an empty ACK or a separate response; distinct = by full wire trace";
size_t verif_max_tape = 260;

namespace {

struct Req {
  std::vector<uint8_t> token;
  bool con = true;
  uint8_t code = 1;
  int style = 0;       // 0 piggy 1 ack+sepCON 2 ack+sepNON 3 sepCON w/o ack 4 silent
  uint32_t sep_delay = 0;
  uint16_t sep_mid = 0;
  bool verdict_fail = false;
  // observed
  bool submitted = false;
  uint16_t mid = 0;
  uint64_t submit_t = 0;
  int handler_calls = 0;
  int nacks = 0;
  int nack_reason = -1;
  bool sep_sent = false;
};

struct Case {
  World *w = nullptr;
  coap_session_t *session = nullptr;
  std::vector<Req> reqs;
  size_t next = 0;
  std::vector<uint32_t> gaps;
  bool modeB = false;
  bool trigger_async = false;   // (B) the server application registers its async entries without a time and triggers them itself later
  int foreign_token_calls = 0;
  std::function<void()> submit_next;
} *G = nullptr;

Req *by_token(const coap_pdu_t *pdu) {
  if (!pdu) return nullptr;
  coap_bin_const_t t = coap_pdu_get_token(pdu);
  for (auto &r : G->reqs) if (r.submitted && r.token.size() == t.length && (t.length == 0 || memcmp(r.token.data(), t.s, t.length) == 0)) return &r;
  return nullptr;
}

void conclude() {
  // one exchange outstanding: the next request goes out after this one concluded
  if (G->next < G->reqs.size()) {
    uint32_t gap = G->next < G->gaps.size() ? G->gaps[G->next] : 0;
    G->w->after(gap, []() { if (G && G->submit_next) G->submit_next(); });
  }
}

coap_response_t resp_handler(coap_session_t *, const coap_pdu_t *, const coap_pdu_t *rcvd, const coap_mid_t mid) {
  Req *r = by_token(rcvd);
  char b[96];
  snprintf(b, sizeof b, "RESPONSE tok=%s mid=%d type=%d", r ? hex(r->token, 8).c_str() : "?", mid, (int)coap_pdu_get_type(rcvd));
  G->w->callback(b);
  if (!r) { G->foreign_token_calls++; return COAP_RESPONSE_OK; }
  r->handler_calls++;
  if (r->handler_calls == 1 && r->nacks == 0) conclude();
  return r->verdict_fail ? COAP_RESPONSE_FAIL : COAP_RESPONSE_OK;
}

void nack_handler(coap_session_t *, const coap_pdu_t *sent, const coap_nack_reason_t reason, const coap_mid_t mid) {
  Req *r = by_token(sent);
  char b[96];
  snprintf(b, sizeof b, "NACK tok=%s mid=%d reason=%d", r ? hex(r->token, 8).c_str() : "?", mid, (int)reason);
  G->w->callback(b);
  if (!r) return;
  r->nacks++;
  r->nack_reason = (int)reason;
  if (r->nacks == 1 && r->handler_calls == 0) conclude();
}

// ---- (B) libcoap server side ----
struct AsyncJob { coap_async_t *a; };
void srv_handler(coap_resource_t *, coap_session_t *session, const coap_pdu_t *request, const coap_string_t *query, coap_pdu_t *response) {
  // ?d=<ms> : answer through an async entry after that delay (separate response), otherwise piggybacked
  uint32_t delay = 0;
  if (query && query->length > 2 && query->s[0] == 'd' && query->s[1] == '=') delay = (uint32_t)atoi(std::string((const char *)query->s + 2, query->length - 2).c_str());
  coap_async_t *async = coap_find_async(session, coap_pdu_get_token(request));
  if (delay && !async) {
    if (G->trigger_async) {
      // entry without a time (never fires by itself); the application triggers it when its answer is ready.  A copy of the request that arrives
      // in between must not reach this handler (libcoap repeats the empty ACK)
      async = coap_register_async(session, request, 0);
      if (async) {
        coap_bin_const_t tk = coap_pdu_get_token(request);
        std::vector<uint8_t> tok(tk.s, tk.s + tk.length);
        G->w->after(delay, [session, tok, async]() {
          coap_bin_const_t t2 = {tok.size(), tok.data()};
          if (G && coap_find_async(session, t2) == async) coap_async_trigger(async);
        });
        return;
      }
    } else {
      async = coap_register_async(session, request, (coap_tick_t)delay);
      if (async) return;  // empty ACK now, handler is called again when the delay expired
    }
  }
  // (the async entry of a delayed request is removed by libcoap when this handler returns)
  {
    coap_bin_const_t tk = coap_pdu_get_token(request);
    G->w->callback("SRV-RESPONSE tok=" + hex(std::vector<uint8_t>(tk.s, tk.s + tk.length), 8));
  }
  coap_pdu_set_code(response, COAP_RESPONSE_CODE_CONTENT);
  coap_add_data(response, 5, (const uint8_t *)"hello");
}

}  // namespace

void verif_init() {
  coap_startup();
  coap_set_log_level(COAP_LOG_EMERG);
}

int verif_case(const uint8_t *tape, size_t tlen, Info *info) {
  Tape t(tape, tlen);
  Case cs;
  G = &cs;
  World w;
  cs.w = &w;
  cs.modeB = t.pick({3, 1}) == 1;
  cs.trigger_async = cs.modeB && tlen > 0 && (tape[tlen - 1] & 1);   // (last tape byte: earlier tapes keep their plans)
  seed_prng(t.u32(), t.chance(24) ? std::vector<uint8_t>{0xff, 0xff} : std::vector<uint8_t>{});
  coap_context_t *ctx = coap_new_context(nullptr);
  if (!ctx) return OUT_OF_DOMAIN;
  w.add_context(ctx);
  coap_register_nack_handler(ctx, nack_handler);
  coap_register_response_handler(ctx, resp_handler);
  Addr srv = Addr::v4(10, 0, 1, 1, 5683);
  coap_context_t *sctx = nullptr;
  Peer *peer = nullptr;
  if (cs.modeB) {
    sctx = coap_new_context(nullptr);
    if (!sctx) { coap_free_context(ctx); return OUT_OF_DOMAIN; }
    coap_address_t la;
    srv.to_coap(&la);
    if (!coap_new_endpoint(sctx, &la, COAP_PROTO_UDP)) { coap_free_context(sctx); coap_free_context(ctx); return OUT_OF_DOMAIN; }
    coap_resource_t *res = coap_resource_init(coap_make_str_const("r"), 0);
    coap_register_handler(res, COAP_REQUEST_GET, srv_handler);
    coap_register_handler(res, COAP_REQUEST_PUT, srv_handler);
    coap_register_handler(res, COAP_REQUEST_POST, srv_handler);
    coap_register_handler(res, COAP_REQUEST_DELETE, srv_handler);
    coap_add_resource(sctx, res);
    w.add_context(sctx);
  } else peer = w.add_peer(srv);
  coap_address_t dst;
  srv.to_coap(&dst);
  cs.session = coap_new_client_session(ctx, nullptr, &dst, COAP_PROTO_UDP);
  if (!cs.session) { if (sctx) coap_free_context(sctx); coap_free_context(ctx); return OUT_OF_DOMAIN; }
  uint32_t at_ms = t.pick({2, 1}) ? 2000 : t.range(1000, 4000);
  coap_session_set_ack_timeout(cs.session, (coap_fixed_point_t){(uint16_t)(at_ms / 1000), (uint16_t)(at_ms % 1000)});
  uint32_t maxdelay = at_ms - 50;  // "network delays shorter than ACK_TIMEOUT"

  unsigned nreq = (unsigned)t.pick({2, 3, 3, 2, 1, 1}) + 1;
  for (unsigned i = 0; i < nreq; i++) {
    Req r;
    unsigned tl = (unsigned)t.pick({1, 1, 2, 2, 4, 2, 1, 1, 4});
    // tokens distinct per request so that the handler log can be keyed by token
    r.token.assign(tl, 0);
    for (unsigned k = 0; k < tl; k++) r.token[k] = (uint8_t)t.u8();
    if (tl) r.token[0] = (uint8_t)(i * 16 + (r.token[0] & 15));
    bool clash = false;
    for (auto &o : cs.reqs) if (o.token == r.token) clash = true;
    if (clash) { r.token.assign(2, (uint8_t)i); r.token[1] = 0xEE; }
    // (the replacement can coincide with an earlier random token as well)
    for (unsigned bump = 0; bump < 16; bump++) {
      bool again = false;
      for (auto &o : cs.reqs) if (o.token == r.token) again = true;
      if (!again) break;
      r.token = {(uint8_t)i, 0xEE, (uint8_t)(0x70 + bump), 0x5A};
    }
    r.con = t.pick({1, 4}) != 0;
    r.code = (uint8_t)t.range(1, 4);
    r.style = (int)t.pick({4, 3, 2, 2, 1});
    r.sep_delay = t.pick({1, 2}) ? t.range(1, 3 * at_ms) : 0;
    r.sep_mid = (i == 0 && t.chance(64)) ? 0 : (uint16_t)(1000 + i);  // distinct per response (a server never reuses a message id within EXCHANGE_LIFETIME); sometimes 0
    r.verdict_fail = t.chance(40);
    cs.reqs.push_back(r);
    cs.gaps.push_back(t.pick({1, 2}) ? t.range(0, 3000) : 0);
  }
  std::vector<FaultDecision> faults(64);
  for (auto &f : faults) {
    switch (t.pick({7, 3, 2, 2})) {
    case 0: break;
    case 1: f.fate = DROP; break;
    case 2: f.dups = t.range(1, 2); f.dup_delay = t.range(0, maxdelay / 2); break;
    default: f.delay = t.range(1, maxdelay); break;
    }
  }
  w.fault = [&](const Datagram &, unsigned idx) {
    FaultDecision f = idx < faults.size() ? faults[idx] : FaultDecision();
    if (f.delay + f.dups * f.dup_delay > maxdelay) f.dup_delay = 0;
    return f;
  };
  if (peer) {
    peer->on_rx = [&](World &ww, Peer &p, const Datagram &d) {
      ref::Msg m;
      if (!simh::parse(d.data, &m)) return;
      if (!ref::is_request(m.code)) return;  // ACK / RST from the client
      Req *r = nullptr;
      for (auto &x : cs.reqs) if (x.submitted && x.token == m.token) r = &x;
      if (!r) return;
      std::vector<uint8_t> pay = {'o', 'k'};
      if (m.type == 1) {
        // NON request: NON response (or silence)
        if (r->style == 4) return;
        ww.peer_send(&p, d.src, simh::response(1, 0x45, r->sep_mid, m.token, pay), r->style == 0 ? 0 : r->sep_delay % maxdelay);
        return;
      }
      switch (r->style) {
      case 0: ww.peer_send(&p, d.src, simh::response(2, 0x45, m.mid, m.token, pay)); break;
      case 1: case 2:
        ww.peer_send(&p, d.src, simh::ack(m.mid));
        if (!r->sep_sent) { r->sep_sent = true; ww.peer_send(&p, d.src, simh::response(r->style == 1 ? 0 : 1, 0x45, r->sep_mid, m.token, pay), r->sep_delay); }
        break;
      case 3:
        if (!r->sep_sent) { r->sep_sent = true; ww.peer_send(&p, d.src, simh::response(0, 0x45, r->sep_mid, m.token, pay), r->sep_delay % maxdelay); }
        else ww.peer_send(&p, d.src, simh::ack(m.mid));
        break;
      default: break;
      }
    };
  }
  cs.submit_next = [&]() {
    if (cs.next >= cs.reqs.size()) return;
    Req &r = cs.reqs[cs.next++];
    coap_pdu_t *pdu = coap_new_pdu(r.con ? COAP_MESSAGE_CON : COAP_MESSAGE_NON, (coap_pdu_code_t)r.code, cs.session);
    if (!pdu) return;
    static const uint8_t dummy[1] = {0};
    coap_add_token(pdu, r.token.size(), r.token.empty() ? dummy : r.token.data());
    coap_add_option(pdu, COAP_OPTION_URI_PATH, 1, (const uint8_t *)"r");
    if (cs.modeB && (r.style == 1 || r.style == 2 || r.style == 3)) {
      char q[32];
      int n = snprintf(q, sizeof q, "d=%u", 1 + r.sep_delay);
      coap_add_option(pdu, COAP_OPTION_URI_QUERY, (size_t)n, (const uint8_t *)q);
    }
    r.submitted = true;
    r.submit_t = w.now;
    coap_mid_t mid = coap_send(cs.session, pdu);
    if (mid == COAP_INVALID_MID) { r.submitted = false; conclude(); return; }
    r.mid = (uint16_t)mid;
    if (!r.con) {
      // a NON request has no NACK; if no response comes the exchange simply stays open: move on after a while
      size_t my = cs.next;
      w.after(4 * at_ms, [&, my]() { if (cs.next == my) conclude(); });
    } else if (!cs.modeB && (r.style == 2)) {
      // empty ACK + NON separate response that may get lost: nothing ever concludes it
      size_t my = cs.next;
      w.after(200000, [&, my]() { if (cs.next == my) conclude(); });
    } else if (!cs.modeB && (r.style == 1 || r.style == 3)) {
      size_t my = cs.next;
      w.after(300000, [&, my]() { if (cs.next == my) conclude(); });
    }
  };
  w.at(w.now, [&]() { cs.submit_next(); });
  bool quiet = w.run(w.now + 60000000ull, 60000);

  // ---- oracle ----
  int verdict = HELD;
  bool nontrivial = false;
  Addr client_local = Addr::from_coap(coap_session_get_addr_local(cs.session));
  for (auto &r : cs.reqs) {
    if (!r.submitted || verdict != HELD) continue;
    std::string id = "request tok=" + hex(r.token, 8) + (r.con ? " CON" : " NON");
    unsigned delivered_ackcon = 0, delivered_non = 0, delivered_empty_ack = 0;
    uint64_t first_resp_t = UINT64_MAX, first_any_t = UINT64_MAX;
    std::map<uint32_t, unsigned> con_resp_deliveries;
    uint64_t last_req_tx = 0;
    for (auto &e : w.trace) {
      ref::Msg m;
      if ((e.kind != EV_DELIVER && e.kind != EV_SEND && e.kind != EV_DROP) || !simh::parse(e.data, &m)) continue;
      bool to_client = e.kind == EV_DELIVER && e.dst == client_local;
      bool fault_hit = (e.kind == EV_DROP || (e.kind == EV_DELIVER && e.dup)) && e.dst == client_local;
      if (fault_hit && ((m.code == 0 && m.type == 2 && m.mid == r.mid) || (m.code >= 64 && m.token == r.token))) nontrivial = true;
      if (to_client && e.t >= r.submit_t) {
        if (m.code >= 64 && m.token == r.token) {
          // retransmissions / network duplicates of one response carry the same message id: they count once
          if (m.type == 2) { if (m.mid == r.mid) { if (!con_resp_deliveries.count(70000)) delivered_ackcon++; con_resp_deliveries[70000]++; first_resp_t = std::min(first_resp_t, e.t); first_any_t = std::min(first_any_t, e.t); } }
          else if (m.type == 0) { if (!con_resp_deliveries.count(m.mid)) delivered_ackcon++; con_resp_deliveries[m.mid]++; first_resp_t = std::min(first_resp_t, e.t); first_any_t = std::min(first_any_t, e.t); }
          else if (m.type == 1) { delivered_non++; first_resp_t = std::min(first_resp_t, e.t); first_any_t = std::min(first_any_t, e.t); }
        } else if (m.code == 0 && (m.type == 2 || m.type == 3) && m.mid == r.mid && r.con) { delivered_empty_ack++; first_any_t = std::min(first_any_t, e.t); }
      }
      if (e.kind == EV_SEND && e.from_lib && e.src == client_local) {
        if (ref::is_request(m.code) && m.token == r.token) last_req_tx = std::max(last_req_tx, e.t);
      }
    }
    // ACK/RST obligations are per CON response mid (any token): collected below once for the whole trace
    unsigned expect_calls = delivered_ackcon + delivered_non;  // distinct ACK/CON responses + NON datagrams
    if (!cs.modeB && delivered_ackcon > 1) { info->fail("harness: scripted server sent two distinct responses"); verdict = VIOLATION; break; }
    if (quiet && (unsigned)r.handler_calls > expect_calls) {
      // Known finding (structural key): a duplicate of CON response X is delivered again when a CON response with a
      // different message id was received in between (libcoap remembers only the last CON message id per session).
      bool stale_con_dup = false;
      {
        std::map<uint16_t, bool> seen;
        uint16_t last = 0;
        bool have_last = false;
        for (auto &e : w.trace) {
          ref::Msg m;
          if (e.kind != EV_DELIVER || !(e.dst == client_local) || !simh::parse(e.data, &m) || m.type != 0 || m.code < 64) continue;
          if (seen.count(m.mid) && have_last && last != m.mid && m.token == r.token) stale_con_dup = true;
          seen[m.mid] = true;
          last = m.mid;
          have_last = true;
        }
      }
      if (stale_con_dup && exclude_known(info, "con-response-duplicate-after-newer-con-response")) { info->label("excluded:stale-con-dup"); continue; }
    }
    if (quiet && (unsigned)r.handler_calls != expect_calls) {
      info->fail("%s: response handler called %d time(s); %u ACK/CON response datagram(s) and %u NON response datagram(s) were delivered (expected %u call(s))",
                 id.c_str(), r.handler_calls, delivered_ackcon, delivered_non, expect_calls);
      verdict = VIOLATION;
      break;
    }
    if (r.con && quiet) {
      bool nothing_arrived = first_any_t == UINT64_MAX;
      if (nothing_arrived && !(r.nacks == 1 && r.nack_reason == COAP_NACK_TOO_MANY_RETRIES)) {
        info->fail("%s: nothing ever arrived for it but NACK(TOO_MANY_RETRIES) was reported %d time(s) (reason %d)", id.c_str(), r.nacks, r.nack_reason);
        verdict = VIOLATION;
        break;
      }
      if (!nothing_arrived && r.nacks && r.handler_calls) { info->fail("%s: both a response (%d call(s)) and a NACK (reason %d) were reported", id.c_str(), r.handler_calls, r.nack_reason); verdict = VIOLATION; break; }
      if (r.nacks > 1) { info->fail("%s: %d NACK calls", id.c_str(), r.nacks); verdict = VIOLATION; break; }
      if (!nothing_arrived && r.nacks && r.nack_reason == COAP_NACK_TOO_MANY_RETRIES && first_any_t != UINT64_MAX) {
        // an ACK or response was delivered, so the request cannot have timed out -- unless it arrived after the give-up
        bool late = false;
        for (auto &e : w.trace) if (e.kind == EV_CALLBACK && e.note.find("NACK tok=" + hex(r.token, 8)) == 0 && e.t <= first_any_t) late = true;
        if (!late) { info->fail("%s: NACK(TOO_MANY_RETRIES) although an ACK/response had been delivered at %llu", id.c_str(), (unsigned long long)first_any_t); verdict = VIOLATION; break; }
      }
    }
    if (!r.con && r.nacks) { info->fail("%s: NACK reported for a Non-confirmable request", id.c_str()); verdict = VIOLATION; break; }
    if (first_resp_t != UINT64_MAX && last_req_tx > first_resp_t) {
      info->fail("%s: request transmitted at %llu after its response was delivered at %llu", id.c_str(), (unsigned long long)last_req_tx, (unsigned long long)first_resp_t);
      verdict = VIOLATION;
      break;
    }
    info->label(r.handler_calls ? "outcome:response" : r.nacks ? "outcome:nack" : "outcome:open(no response delivered)");
  }
  if (verdict == HELD) {
    // every CON response delivered to the client is acknowledged (ACK, or RST after a FAIL verdict), duplicates included
    std::map<uint16_t, unsigned> deliveries, answers, resets;
    std::map<uint16_t, std::vector<uint8_t>> tok_of;
    for (auto &e : w.trace) {
      ref::Msg m;
      if (!simh::parse(e.data, &m)) continue;
      if (e.kind == EV_DELIVER && e.dst == client_local && m.type == 0 && m.code >= 64) { deliveries[m.mid]++; tok_of[m.mid] = m.token; }
      if (e.kind == EV_SEND && e.from_lib && e.src == client_local && m.code == 0 && (m.type == 2 || m.type == 3)) { answers[m.mid]++; if (m.type == 3) resets[m.mid]++; }
    }
    for (auto &kv : deliveries) {
      if (answers[kv.first] < kv.second) {
        info->fail("CON response mid %u was delivered %u time(s) but answered by ACK/RST %u time(s)", kv.first, kv.second, answers[kv.first]);
        verdict = VIOLATION;
        break;
      }
    }
    // "acknowledged": a CON response that the application accepted (verdict OK) is never answered with a Reset, not the first time and
    // not when a duplicate of it arrives later (whatever other responses were handled in between)
    for (auto &kv : deliveries) {
      if (verdict != HELD || !resets.count(kv.first)) continue;
      for (auto &r : cs.reqs) if (r.submitted && r.token == tok_of[kv.first] && !r.verdict_fail) {
        info->fail("CON response mid %u (tok=%s, handler verdict OK) was answered with a Reset %u time(s)", kv.first, hex(r.token, 8).c_str(), resets[kv.first]);
        verdict = VIOLATION;
        break;
      }
    }
    // (B) a response that the server's handler produced is put on the wire at the latest when the network is quiet (held back by NSTART
    // behind an unacknowledged earlier CON response only until that one is acknowledged or given up): otherwise the request ends in neither
    if (verdict == HELD && cs.modeB && quiet) {
      for (auto &c : w.trace) {
        if (c.kind != EV_CALLBACK || c.note.compare(0, 17, "SRV-RESPONSE tok=") != 0) continue;
        std::string tk = c.note.substr(17);
        bool sent = false;
        for (auto &e : w.trace) {
          ref::Msg m;
          if (e.kind == EV_SEND && e.from_lib && e.src == srv && e.t >= c.t && simh::parse(e.data, &m) && m.code >= 64 && hex(m.token, 8) == tk) { sent = true; break; }
        }
        if (!sent) { info->fail("server handler produced the response for tok=%s at %llu but it was never transmitted", tk.c_str(), (unsigned long long)c.t); verdict = VIOLATION; break; }
        info->label("B:server-response-transmitted");
      }
    }
    // (B) one request, one answer from the libcoap server: a copy of the request (retransmission / network duplicate) that reaches the server while
    // its async entry is pending is answered by the empty ACK again and does not produce a response; only a copy that arrives after the answer was
    // produced may be processed anew (libcoap keeps no record of finished exchanges - recorded under C09, redelivered-request-message-processed-again)
    if (verdict == HELD && cs.modeB) {
      std::map<std::string, std::vector<size_t>> answers_at, copies_at;   // token -> trace positions
      for (size_t i = 0; i < w.trace.size(); i++) {
        auto &e = w.trace[i];
        ref::Msg m;
        if (e.kind == EV_CALLBACK && e.note.compare(0, 17, "SRV-RESPONSE tok=") == 0) answers_at[e.note.substr(17)].push_back(i);
        else if (e.kind == EV_READ && e.dst == srv && simh::parse(e.data, &m) && ref::is_request(m.code)) copies_at[hex(m.token, 8)].push_back(i);
      }
      for (auto &kv : answers_at) {
        size_t later = 0;
        for (size_t c : copies_at[kv.first]) if (c > kv.second.front()) later++;
        if (kv.second.size() > 1 + later) {
          info->fail("server application produced %zu responses for the request tok=%s; %zu cop%s of the request reached the server, %zu of them after the first answer", kv.second.size(), kv.first.c_str(),
                     copies_at[kv.first].size(), copies_at[kv.first].size() == 1 ? "y" : "ies", later);
          verdict = VIOLATION;
          break;
        }
        if (copies_at[kv.first].size() > 1 + later) info->label("B:request-copy-while-async-pending");
      }
    }
    // FAIL verdict => RST for the first delivery
    for (auto &r : cs.reqs) {
      if (verdict != HELD || !r.submitted || !r.verdict_fail || !r.handler_calls) continue;
      for (auto &e : w.trace) {
        ref::Msg m;
        if (e.kind != EV_DELIVER || !(e.dst == client_local) || !simh::parse(e.data, &m)) continue;
        if (m.token == r.token && m.code >= 64 && (m.type == 0 || m.type == 1)) {
          // the reply to the first such delivery must be a RST with that mid in the same instant
          bool rst = false;
          for (auto &x : w.trace) {
            ref::Msg y;
            if (x.kind == EV_SEND && x.from_lib && x.t == e.t && simh::parse(x.data, &y) && y.type == 3 && y.mid == m.mid) rst = true;
          }
          if (!rst) { info->fail("handler verdict FAIL for tok=%s but no Reset was sent for mid %u", hex(r.token, 8).c_str(), m.mid); verdict = VIOLATION; }
          break;
        }
      }
    }
  }
  if (verdict == HELD && cs.foreign_token_calls) { info->fail("response handler saw a token the application never used"); verdict = VIOLATION; }
  if (!quiet || w.hit_cap) info->inconclusive = true;
  info->nontrivial = nontrivial;
  info->label(cs.modeB ? "mode:B(libcoap server)" : "mode:A(scripted server)");
  {
    std::string hdr = cs.modeB ? "B;" : "A;";
    for (auto &r : cs.reqs) { char b[96]; snprintf(b, sizeof b, " req{%s %s style%d sepmid=%u%s}", r.con ? "CON" : "NON", hex(r.token, 8).c_str(), r.style, r.sep_mid, r.verdict_fail ? " FAIL" : ""); hdr += b; }
    info->rs(hdr); info->rs(simh::render_trace(w, 120));
    for (auto &e : w.trace) if (e.kind == EV_SEND || e.kind == EV_DELIVER || e.kind == EV_DROP) { info->mixu(e.t); info->mixu(e.kind); info->mix(e.data.data(), e.data.size()); }
  }
  cs.submit_next = nullptr;
  w.remove_context(ctx);
  coap_free_context(ctx);
  if (sctx) { w.remove_context(sctx); coap_free_context(sctx); }
  G = nullptr;
  return verdict;
}
