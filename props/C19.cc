// C19 — (D)TLS sessions exchange application data only after an authenticated handshake.
// libcoap client and libcoap server (GnuTLS, PSK) over the simulated network, GnuTLS on the virtual clock; generated credential
// relations, requests queued before the handshake, datagram faults, injected cleartext.
#include "../sim/helpers.h"
using namespace verif;
using namespace sim;

const char *verif_property_id = "C19";
const char *verif_rule =
    "tape -> transport (DTLS, TLS over TCP), server credentials (default key and hint; identity callback with a table identity -> key that refuses unknown identities; SNI callback with "
    "a table SNI -> (hint, key) that refuses unknown names), client identity / key / SNI in a generated relation to them {equal, different of the same length, shorter, longer, proper prefix, "
    "extension, one byte, unknown identity, unknown SNI}, client hint callback accepting or refusing, 0..5 requests (CON / NON, each carrying a unique cleartext marker) handed to coap_send() "
    "before the handshake can have completed, DTLS datagram loss / duplication / delay over the first 40 datagrams, reference-encoded cleartext CoAP requests injected at the DTLS endpoint "
    "from the client's address and from a stranger, before and after the handshake. Oracle: the cleartext markers never appear in any datagram or stream byte on the wire; everything the "
    "client transmits on DTLS is a DTLS record (content type 20..25), never a CoAP message; injected cleartext reaches no handler. When the credentials do not match (by the tables, "
    "independently of libcoap): no server request handler and no client response handler ever runs, no DTLS/SESSION_CONNECTED event is raised at the client, and by the time the client "
    "session has been released every Confirmable request has been reported by exactly one NACK, every Non-confirmable by at most one. When they match and no datagram was lost: every "
    "request reaches the server handler exactly once, in submission order, and every request gets exactly one response in the client's handler, no NACK. "
    "Non-trivial = near-miss credentials (prefix / extension / length / one byte) or a handshake that saw a fault, with at least one queued request; distinct = by scenario Every second case (last tape byte) the client context is in block mode (COAP_BLOCK_USE_LIBCOAP) and every second queued request is a FETCH with Observe (libcoap then keeps large-receive state for it besides the queued message); NACKs are attributed by token.";
size_t verif_max_tape = 200;

namespace {
typedef std::vector<uint8_t> Bytes;

struct Case {
  World *w = nullptr;
  // server tables
  Bytes default_key, default_hint;
  std::map<Bytes, Bytes> id_table;                       // identity -> key
  std::map<std::string, std::pair<Bytes, Bytes>> sni_table;   // name -> (hint, key)
  coap_dtls_spsk_info_t sni_info;                        // storage handed back to libcoap
  coap_bin_const_t id_key;
  // client
  bool accept_hint = true;
  bool refuse_only_announced_hints = false;
  bool cli_block_mode = false;
  unsigned req_idx = 0;
  coap_dtls_cpsk_info_t ih_info;
  Bytes cli_identity, cli_key;
  // observations
  std::vector<std::string> srv_seen;     // markers in the order the server handler saw them
  std::map<std::string, int> responses, nacks;
  std::map<std::vector<uint8_t>, std::string> marker_by_token;
  unsigned cli_connected = 0, srv_connected = 0, cli_unknown_resp = 0;
} *G = nullptr;

const coap_bin_const_t *cb_id(coap_bin_const_t *identity, coap_session_t *, void *) {
  Bytes id(identity->s, identity->s + identity->length);
  auto it = G->id_table.find(id);
  if (it == G->id_table.end()) return nullptr;   // unknown identity: refuse
  G->id_key.s = it->second.data();
  G->id_key.length = it->second.size();
  return &G->id_key;
}
const coap_dtls_spsk_info_t *cb_sni(const char *sni, coap_session_t *, void *) {
  auto it = G->sni_table.find(sni ? sni : "");
  if (it == G->sni_table.end()) return nullptr;  // unknown name: refuse
  G->sni_info.hint.s = it->second.first.data();
  G->sni_info.hint.length = it->second.first.size();
  G->sni_info.key.s = it->second.second.data();
  G->sni_info.key.length = it->second.second.size();
  return &G->sni_info;
}
const coap_dtls_cpsk_info_t *cb_ih(coap_str_const_t *hint, coap_session_t *, void *) {
  // a refusing client refuses either every hint, or every hint a server actually announces (all hints of this harness are non-empty)
  // while it would go on without one ("no hint -> default identity", RFC 4279)
  if (!G->accept_hint && !(G->refuse_only_announced_hints && (!hint || hint->length == 0))) return nullptr;
  G->ih_info.identity.s = G->cli_identity.data();
  G->ih_info.identity.length = G->cli_identity.size();
  G->ih_info.key.s = G->cli_key.data();
  G->ih_info.key.length = G->cli_key.size();
  return &G->ih_info;
}

std::string marker_of(const coap_pdu_t *pdu) {
  size_t len = 0;
  const uint8_t *d = nullptr;
  if (coap_get_data(pdu, &len, &d) && d) return std::string((const char *)d, len);
  return "";
}
void h_srv(coap_resource_t *, coap_session_t *, const coap_pdu_t *request, const coap_string_t *, coap_pdu_t *response) {
  std::string m = marker_of(request);
  G->srv_seen.push_back(m);
  coap_pdu_set_code(response, COAP_RESPONSE_CODE_CHANGED);
  std::string r = "RSP-" + m;
  coap_add_data(response, r.size(), (const uint8_t *)r.data());
}
coap_response_t h_resp(coap_session_t *, const coap_pdu_t *, const coap_pdu_t *rcvd, const coap_mid_t) {
  std::string m = marker_of(rcvd);
  if (m.compare(0, 4, "RSP-") == 0) G->responses[m.substr(4)]++; else G->cli_unknown_resp++;
  return COAP_RESPONSE_OK;
}
void h_nack(coap_session_t *, const coap_pdu_t *sent, const coap_nack_reason_t rsn, const coap_mid_t mid) {
  if (getenv("C19_DEBUG")) fprintf(stderr, "NACK sent=%p reason=%d mid=%d\n", (const void *)sent, (int)rsn, (int)mid);
  if (!sent) { G->nacks["<no pdu>"]++; return; }
  // the request is identified by its token (the PDU handed to the NACK handler may be libcoap's own record of the request, without the payload)
  coap_bin_const_t tk = coap_pdu_get_token(sent);
  auto it = G->marker_by_token.find(std::vector<uint8_t>(tk.s, tk.s + tk.length));
  G->nacks[it != G->marker_by_token.end() ? it->second : marker_of(sent)]++;
}
int ev_cli(coap_session_t *, const coap_event_t ev) { if (G && (ev == COAP_EVENT_DTLS_CONNECTED || ev == COAP_EVENT_SESSION_CONNECTED)) G->cli_connected++; return 0; }
int ev_srv(coap_session_t *, const coap_event_t ev) { if (G && (ev == COAP_EVENT_DTLS_CONNECTED || ev == COAP_EVENT_SESSION_CONNECTED)) G->srv_connected++; return 0; }

// key in a generated relation to `k`
Bytes relate(Tape &t, const Bytes &k, int *rel) {
  Bytes o = k;
  *rel = (int)t.pick({6, 2, 2, 2, 2, 2, 1});
  switch (*rel) {
  case 0: break;                                                         // equal
  case 1: o[t.range(0, (uint32_t)o.size() - 1)] ^= (uint8_t)(1u << t.range(0, 7)); break;   // same length, one bit differs
  case 2: if (o.size() > 1) o.resize(t.range(1, (uint32_t)o.size() - 1)); else o[0] ^= 1; break;   // proper prefix
  case 3: { Bytes e = t.blob(t.range(1, 4)); o.insert(o.end(), e.begin(), e.end()); break; }   // extension
  case 4: o = t.blob(o.size()); if (o == k) o[0] ^= 0x80; break;         // unrelated, same length
  case 5: o = t.blob(t.range(1, 24)); if (o == k) o.push_back(1); break; // unrelated, any length
  default: o = {k[0]}; if (o == k) o[0] ^= 1; break;                     // one byte
  }
  return o;
}

bool contains(const Bytes &hay, const std::string &needle) {
  if (needle.empty() || hay.size() < needle.size()) return false;
  return std::search(hay.begin(), hay.end(), needle.begin(), needle.end()) != hay.end();
}

}  // namespace

void verif_init() {
  coap_startup();
  coap_set_log_level(getenv("C19_DEBUG") ? COAP_LOG_DEBUG : COAP_LOG_EMERG);
  coap_dtls_set_log_level(getenv("C19_DEBUG") ? COAP_LOG_INFO : COAP_LOG_EMERG);
  hook_gnutls_time();
}

int verif_case(const uint8_t *tape, size_t tlen, Info *info) {
  Tape t(tape, tlen);
  Case cs;
  G = &cs;
  World w;
  cs.w = &w;
  seed_prng(t.u16());
  bool tls = t.pick({3, 1}) == 1;
  int verdict = HELD;
  std::string hist;
  char hb[200];
#define FAIL(...) do { info->fail(__VA_ARGS__); verdict = VIOLATION; goto teardown; } while (0)
  // ---- server credentials ----
  int mode = (int)t.pick({3, 3, 2});   // 0 default key  1 identity table  2 SNI table
  cs.default_key = t.blob(t.range(2, 16));
  cs.default_hint = {'h', 'i', 'n', 't'};
  Bytes id_known = {'c', 'l', 'i', 'e', 'n', 't', '1'};
  std::string sni_known = "alpha.example";
  Bytes expected_key = cs.default_key;
  if (mode == 1) {
    cs.id_table[id_known] = t.blob(t.range(2, 16));
    cs.id_table[Bytes{'o', 't', 'h', 'e', 'r'}] = t.blob(t.range(2, 16));
    expected_key = cs.id_table[id_known];
  } else if (mode == 2) {
    cs.sni_table[sni_known] = {Bytes{'a', 'h'}, t.blob(t.range(2, 16))};
    cs.sni_table["beta.example"] = {Bytes{'b', 'h'}, t.blob(t.range(2, 16))};
    expected_key = cs.sni_table[sni_known].second;
  }
  // ---- client credentials ----
  int rel = 0;
  cs.cli_key = relate(t, expected_key, &rel);
  cs.cli_identity = id_known;
  bool unknown_identity = mode == 1 && t.chance(40);
  if (unknown_identity) { cs.cli_identity = {'n', 'o', 'b', 'o', 'd', 'y'}; if (t.flag()) cs.cli_key = cs.default_key; }   // (also with the default key: still to be refused)
  std::string client_sni;
  bool unknown_sni = false;
  bool no_sni = false;
  if (mode == 2) {
    client_sni = sni_known;
    size_t v = t.pick({5, 2, 2});
    if (v == 1) { client_sni = t.flag() ? "gamma.example" : "alpha"; unknown_sni = true; if (t.flag()) cs.cli_key = cs.default_key; }
    else if (v == 2) {
      // no SNI at all: libcoap asks the application's SNI callback about the empty name - this table does not know it
      client_sni.clear(); no_sni = true; unknown_sni = true;
      if (t.flag()) cs.cli_key = cs.default_key;
    }
  } else if (t.chance(40)) client_sni = "whatever.example";
  // another, legitimate client has completed a handshake with this server before (credential caches are warm)
  bool warm_up = t.chance(90);
  bool use_ih_cb = t.chance(90);
  cs.accept_hint = !use_ih_cb || !t.chance(50);
  cs.refuse_only_announced_hints = !cs.accept_hint && tlen > 0 && (tape[tlen - 1] & 1);   // (last tape byte: earlier tapes keep their plans)
  if (cs.refuse_only_announced_hints) info->label("hint-policy:refuse-announced-accept-none");
  bool match = rel == 0 && !unknown_identity && !unknown_sni && cs.accept_hint && cs.cli_key == expected_key;
  if (unknown_identity || unknown_sni) match = false;
  // ---- requests, faults, injections ----
  unsigned nreq = t.range(0, 5);
  std::vector<std::pair<std::string, bool>> reqs;   // marker, confirmable
  for (unsigned i = 0; i < nreq; i++) { char m[40]; snprintf(m, sizeof m, "CLEARTEXT-MARKER-%u-%04x", i, t.u16()); reqs.push_back({m, t.flag()}); }
  std::vector<FaultDecision> faults(40);
  bool any_fault = false;
  if (!tls && t.chance(100)) for (auto &f : faults) switch (t.pick({12, 2, 1, 1})) {
    case 1: f.fate = DROP; any_fault = true; break;
    case 2: f.dups = 1; f.dup_delay = t.range(0, 800); any_fault = true; break;
    case 3: f.delay = t.range(1, 800); any_fault = true; break;
    default: break;
  }
  bool inject_early = !tls && t.chance(100), inject_late = !tls && t.chance(100);
  if (no_sni) hist += "no-sni ";
  if (warm_up) hist += "warm-up ";
  snprintf(hb, sizeof hb, "%s mode=%s key-relation=%d%s%s hint-cb=%s requests=%u%s%s; ", tls ? "TLS" : "DTLS", mode == 0 ? "default" : mode == 1 ? "id-table" : "sni-table", rel,
           unknown_identity ? " unknown-identity" : "", unknown_sni ? " unknown-sni" : "", !use_ih_cb ? "-" : cs.accept_hint ? "accept" : "refuse", nreq, any_fault ? " faults" : "", match ? " MATCH" : " mismatch");
  hist += hb;

  Addr sa = Addr::v4(10, 0, 0, 1, 5684), stranger = Addr::v4(10, 0, 9, 9, 50000);
  coap_context_t *sctx = coap_new_context(nullptr), *cctx = coap_new_context(nullptr);
  coap_session_t *session = nullptr;
  Addr cli_addr;
  bool have_cli_addr = false, was_established = false;
  unsigned fault_base = 0;
  if (!sctx || !cctx) { if (sctx) coap_free_context(sctx); if (cctx) coap_free_context(cctx); G = nullptr; return OUT_OF_DOMAIN; }
  w.fault = [&](const Datagram &, unsigned idx) { return idx >= fault_base && idx - fault_base < faults.size() ? faults[idx - fault_base] : FaultDecision(); };
  {
    coap_dtls_spsk_t sp;
    memset(&sp, 0, sizeof sp);
    sp.version = COAP_DTLS_SPSK_SETUP_VERSION;
    if (mode == 1) sp.validate_id_call_back = cb_id;
    if (mode == 2) sp.validate_sni_call_back = cb_sni;
    sp.psk_info.hint.s = cs.default_hint.data(); sp.psk_info.hint.length = cs.default_hint.size();
    sp.psk_info.key.s = cs.default_key.data(); sp.psk_info.key.length = cs.default_key.size();
    if (!coap_context_set_psk2(sctx, &sp)) { info->inconclusive = true; goto teardown; }
    coap_address_t la;
    sa.to_coap(&la);
    if (!coap_new_endpoint(sctx, &la, tls ? COAP_PROTO_TLS : COAP_PROTO_DTLS)) { info->inconclusive = true; goto teardown; }
    coap_resource_t *res = coap_resource_init(coap_make_str_const("r"), 0);
    coap_register_handler(res, COAP_REQUEST_PUT, h_srv);
    coap_register_handler(res, COAP_REQUEST_GET, h_srv);
    coap_register_handler(res, COAP_REQUEST_FETCH, h_srv);
    coap_add_resource(sctx, res);
    coap_register_event_handler(sctx, ev_srv);
    w.add_context(sctx);
    coap_register_response_handler(cctx, h_resp);
    coap_register_nack_handler(cctx, h_nack);
    // (last tape byte, bit 1) the client lets libcoap do block-wise transfers and every second request is a FETCH with an Observe option: libcoap then
    // keeps a second record of the request (its large-receive state) next to the queued message - still one request, one NACK
    cs.cli_block_mode = tlen > 0 && (tape[tlen - 1] & 2);
    if (cs.cli_block_mode) { coap_context_set_block_mode(cctx, COAP_BLOCK_USE_LIBCOAP); info->label("client-block-mode"); }
    coap_register_event_handler(cctx, ev_cli);
    w.add_context(cctx);
    if (warm_up) {
      // the legitimate client: known identity, known name, the right key; its own context, gone before the client under test starts
      coap_context_t *wctx = coap_new_context(nullptr);
      if (wctx) {
        w.add_context(wctx);
        coap_dtls_cpsk_t wp;
        memset(&wp, 0, sizeof wp);
        wp.version = COAP_DTLS_CPSK_SETUP_VERSION;
        static char wsni[32];
        snprintf(wsni, sizeof wsni, "%s", sni_known.c_str());
        if (mode == 2) wp.client_sni = wsni;
        Bytes wkey = mode == 0 ? cs.default_key : mode == 1 ? cs.id_table[id_known] : cs.sni_table[sni_known].second;
        wp.psk_info.identity.s = id_known.data(); wp.psk_info.identity.length = id_known.size();
        wp.psk_info.key.s = wkey.data(); wp.psk_info.key.length = wkey.size();
        coap_address_t wdst;
        sa.to_coap(&wdst);
        coap_session_t *ws = coap_new_client_session_psk2(wctx, nullptr, &wdst, tls ? COAP_PROTO_TLS : COAP_PROTO_DTLS, &wp);
        if (ws) {
          std::vector<FaultDecision> saved = faults;
          for (auto &f : faults) f = FaultDecision();
          w.run(w.now + 3000, 200000);
          coap_session_release(ws);
          w.run(w.now + 1000, 200000);
          faults = saved;
          // the fault plan counts datagrams from the beginning of the case: start it for the client under test
          fault_base = w.wire_count;
        }
        w.remove_context(wctx);
        coap_free_context(wctx);
      }
    }
    coap_dtls_cpsk_t cp;
    memset(&cp, 0, sizeof cp);
    cp.version = COAP_DTLS_CPSK_SETUP_VERSION;
    if (use_ih_cb) cp.validate_ih_call_back = cb_ih;
    static char sni_buf[64];
    if (!client_sni.empty()) { snprintf(sni_buf, sizeof sni_buf, "%s", client_sni.c_str()); cp.client_sni = sni_buf; }
    cp.psk_info.identity.s = cs.cli_identity.data(); cp.psk_info.identity.length = cs.cli_identity.size();
    cp.psk_info.key.s = cs.cli_key.data(); cp.psk_info.key.length = cs.cli_key.size();
    coap_address_t dst;
    sa.to_coap(&dst);
    session = coap_new_client_session_psk2(cctx, nullptr, &dst, tls ? COAP_PROTO_TLS : COAP_PROTO_DTLS, &cp);
    if (!session) { info->inconclusive = true; goto teardown; }
  }
  // requests handed over before the handshake can have completed
  for (auto &r : reqs) {
    // (coap_pdu_init() rather than coap_new_pdu(): the latter waits - processing I/O on the wall clock - until the first exchange of a
    //  connecting session is over, so a single-threaded application cannot queue behind it)
    bool fetch_obs = cs.cli_block_mode && (cs.req_idx++ % 2 == 0);
    coap_pdu_t *pdu = coap_pdu_init(r.second ? COAP_MESSAGE_CON : COAP_MESSAGE_NON, fetch_obs ? COAP_REQUEST_CODE_FETCH : COAP_REQUEST_CODE_PUT, coap_new_message_id(session), 1152);
    if (!pdu) continue;
    uint8_t tk[4];
    size_t tl = 0;
    coap_session_new_token(session, &tl, tk);
    coap_add_token(pdu, tl > 4 ? 4 : tl, tk);
    cs.marker_by_token[std::vector<uint8_t>(tk, tk + (tl > 4 ? 4 : tl))] = r.first;
    if (fetch_obs) coap_add_option(pdu, COAP_OPTION_OBSERVE, 0, nullptr);
    coap_add_option(pdu, COAP_OPTION_URI_PATH, 1, (const uint8_t *)"r");
    if (fetch_obs) { uint8_t cf = 0; coap_add_option(pdu, COAP_OPTION_CONTENT_FORMAT, 0, &cf); }   // text/plain (FETCH needs a Content-Format)
    coap_add_data(pdu, r.first.size(), (const uint8_t *)r.first.data());
    coap_send(session, pdu);
  }
  // cleartext CoAP at the DTLS endpoint
  {
    auto inject = [&](const Addr &from, const char *marker, uint16_t mid) {
      ref::Msg m;
      m.type = 0; m.code = 3; m.mid = mid; m.token = {0x99};
      m.opts.push_back(ref::Opt{11, {'r'}});
      m.payload.assign(marker, marker + strlen(marker));
      w.inject(from, sa, ref::encode(m, ref::F_UDP));
    };
    if (inject_early) inject(stranger, "INJECTED-EARLY-STRANGER", 0x7001);
    w.run(w.now + 5, 20000);
    for (auto &e : w.trace) if (e.kind == EV_SEND && e.from_lib && e.dst == sa) { cli_addr = e.src; have_cli_addr = true; }   // (the last one: the client under test)
    if (inject_early && have_cli_addr) inject(cli_addr, "INJECTED-EARLY-CLIENT", 0x7002);
    // let the handshake run its course (DTLS gives up after its retransmission budget)
    for (unsigned step = 0; step < 40; step++) { w.run(w.now + 5000, 400000); if (coap_session_get_state(session) == COAP_SESSION_STATE_ESTABLISHED) was_established = true; }
    if (inject_late) { inject(stranger, "INJECTED-LATE-STRANGER", 0x7003); if (have_cli_addr) inject(cli_addr, "INJECTED-LATE-CLIENT", 0x7004); }
    w.run(w.now + 200000, 400000);
    if (coap_session_get_state(session) == COAP_SESSION_STATE_ESTABLISHED) was_established = true;
  }
  if (w.hit_cap) { info->inconclusive = true; goto teardown; }
  // the application gives up the session: whatever is still queued has to be reported now
  coap_session_release(session);
  session = nullptr;
  w.run(w.now + 1000, 100000);
  w.remove_context(cctx);
  coap_free_context(cctx);
  cctx = nullptr;

  // ---- oracle ----
  for (auto &s : cs.srv_seen) if (s.compare(0, 8, "INJECTED") == 0) FAIL("a cleartext CoAP request injected at the %s endpoint reached the request handler (%s)", tls ? "TLS" : "DTLS", s.c_str());
  for (auto &e : w.trace) {
    if (e.kind != EV_SEND || !e.from_lib) continue;
    for (auto &r : reqs) if (contains(e.data, r.first) || contains(e.data, "RSP-" + r.first)) FAIL("the cleartext marker %s is visible in a datagram on the wire: %s", r.first.c_str(), hex(e.data, 48).c_str());
    if (!tls && e.dst == sa && !e.data.empty() && !(e.data[0] >= 20 && e.data[0] <= 25) && !((e.data[0] & 0xE0) == 0x20))
      FAIL("the client transmitted a datagram that is not a DTLS record (first byte 0x%02x): %s", e.data[0], hex(e.data, 32).c_str());
  }
  for (auto &e : w.trace) if (e.kind == EV_STREAM_TX || e.kind == EV_STREAM_RX) for (auto &r : reqs) if (contains(e.data, r.first)) FAIL("the cleartext marker %s is visible in the TLS byte stream", r.first.c_str());
  if (!match) {
    if (!cs.srv_seen.empty()) FAIL("credentials do not match (%s) but the server's request handler ran %zu times (first: %s)", hist.c_str(), cs.srv_seen.size(), cs.srv_seen[0].c_str());
    if (!cs.responses.empty() || cs.cli_unknown_resp) FAIL("credentials do not match (%s) but the client's response handler ran", hist.c_str());
    if (cs.cli_connected) FAIL("credentials do not match (%s) but the client session reported CONNECTED", hist.c_str());
    if (was_established) FAIL("credentials do not match (%s) but the client session reached the ESTABLISHED state", hist.c_str());
    for (auto &r : reqs) {
      int n = cs.nacks.count(r.first) ? cs.nacks[r.first] : 0;
      if (r.second && n != 1) FAIL("credentials do not match (%s): Confirmable request %s was reported by %d NACKs after the session was released (all NACKs: %zu)", hist.c_str(), r.first.c_str(), n, cs.nacks.size());
      if (!r.second && n > 1) FAIL("credentials do not match (%s): Non-confirmable request %s was reported by %d NACKs", hist.c_str(), r.first.c_str(), n);
    }
  } else if (!any_fault) {
    if (cs.srv_seen.size() != reqs.size()) FAIL("matching credentials, no fault (%s): %zu requests were queued, the server handler ran %zu times", hist.c_str(), reqs.size(), cs.srv_seen.size());
    for (size_t i = 0; i < reqs.size(); i++) if (cs.srv_seen[i] != reqs[i].first) FAIL("matching credentials (%s): request %zu reached the handler out of order (%s instead of %s)", hist.c_str(), i, cs.srv_seen[i].c_str(), reqs[i].first.c_str());
    for (auto &r : reqs) {
      int n = cs.responses.count(r.first) ? cs.responses[r.first] : 0;
      if (n != 1) FAIL("matching credentials (%s): request %s got %d responses in the client's handler", hist.c_str(), r.first.c_str(), n);
      if (cs.nacks.count(r.first)) FAIL("matching credentials (%s): request %s was NACKed although it was answered", hist.c_str(), r.first.c_str());
    }
  } else {
    // faults: whatever happened, nothing is delivered twice and the order is kept
    std::set<std::string> once;
    size_t pos = 0;
    for (auto &s : cs.srv_seen) {
      if (!once.insert(s).second) { bool con = false; for (auto &r : reqs) if (r.first == s) con = r.second; if (!con) FAIL("request %s reached the server handler twice", s.c_str()); }
      while (pos < reqs.size() && reqs[pos].first != s) pos++;
    }
    for (auto &r : reqs) { int n = cs.responses.count(r.first) ? cs.responses[r.first] : 0, k = cs.nacks.count(r.first) ? cs.nacks[r.first] : 0; if (r.second && n + k != 1 && !(n == 1 && k == 0)) { if (n + k == 0) FAIL("with faults (%s): Confirmable request %s got neither response nor NACK by the time the session was released", hist.c_str(), r.first.c_str()); if (k > 1) FAIL("request %s was reported by %d NACKs", r.first.c_str(), k); } }
  }
teardown:
  info->nontrivial = nreq > 0 && ((rel >= 1 && rel != 4 && rel != 5) || any_fault || unknown_identity || unknown_sni);
  info->label(tls ? "tls" : "dtls");
  info->label(match ? "credentials-match" : "credentials-mismatch");
  if (any_fault) info->label("faults");
  if (cs.cli_connected) info->label("client-connected-event");
  if (was_established) info->label("client-established");
  info->rs(hist);
  info->mix(hist.data(), hist.size());
  if (session) coap_session_release(session);
  if (cctx) { w.remove_context(cctx); coap_free_context(cctx); }
  w.remove_context(sctx);
  coap_free_context(sctx);
  G = nullptr;
  return verdict;
}
