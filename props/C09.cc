// C09 — block-wise transfer delivers the sender's body intact, once, or fails explicitly.
// libcoap client <-> libcoap server on the simulated network, both with COAP_BLOCK_USE_LIBCOAP.
#include "../sim/helpers.h"
using namespace verif;
using namespace sim;

const char *verif_property_id = "C09";
const char *verif_rule =
    "tape -> libcoap client and server contexts (COAP_BLOCK_USE_LIBCOAP, SINGLE_BODY on/off per side), 1..2 transfers on one session with distinct tokens: "
    "Block1 upload (PUT via coap_add_data_large_request), Block2 download (GET answered with coap_add_data_large_response) or both (POST); body lengths from "
    "{0, 1, k*2^(szx+4)-1, k*2^(szx+4), k*2^(szx+4)+1 for szx 0..6, k 1..5, random <= 20000 (<= 64 KiB in thorough)}; keyed pseudo-random content; client MTU 64..1152, "
    "server max block size unset/16..1024, client-requested Block2 szx; CON or NON; per-datagram drop / duplicate / delay over the first 40 datagrams. "
    "Oracle: every piece a handler obtains (offset,len,total) is byte-identical to that slice of the sender's body and total is never below the body length once final; "
    "single-body mode: at most one delivery per transfer, per-block mode: the final block at most once and, on success, the pieces tile [0,total); every token seen by a handler "
    "is an application token; every datagram <= the sender's MTU; release callback exactly once per accepted coap_add_data_large_* call by the time the contexts are freed; "
    "without faults: exactly one complete delivery and exactly one success response; with faults on a CON transfer the requester ends with a success response, an error response or a NACK. "
    "Non-trivial = body > one block and (a fault hit a block message, or the length is on a block boundary +-1, or the block size was reduced by the MTU); distinct = by configuration + wire trace One case in eight (last tape byte) is scenario (S): a scripted peer uploads two bodies to one resource of a libcoap server at the same time (blocks interleaved, 16..128 byte blocks, with / without Size1), told apart by Request-Tag (one of them may go without); loss-free: every piece the server application obtains is the bytes of one upload at that offset, each body is completed exactly once, each upload ends 2.04.";
size_t verif_max_tape = 200;

namespace {

struct Piece { size_t offset, len, total; bool content_ok; bool is_tail = false; /* exactly one block of the body (the last len bytes, or len bytes at a multiple of len), presented as a whole body */ };

struct Transfer {
  int kind = 0;  // 0 upload (PUT), 1 download (GET), 2 both (POST)
  std::vector<uint8_t> token;
  std::vector<uint8_t> up, down;     // bodies
  uint8_t req_szx = 7;               // client-requested Block2 SZX (7 = none)
  // observed
  bool sent = false;
  uint64_t submit_t = 0;
  std::vector<Piece> srv_pieces, cli_pieces;
  std::vector<uint8_t> cli_codes;
  int srv_complete = 0, cli_complete = 0;
  int nacks = 0;
  int cli_final_calls = 0;
  int up_release = 0, down_release = 0;
  int up_added = 0, down_added = 0;
};

struct Case {
  World *w = nullptr;
  std::vector<Transfer> tr;
  bool srv_single = true, cli_single = true;
  int foreign_tokens = 0;
  std::vector<uint8_t> foreign_codes;
  bool refused = false;
  std::string first_error;
} *G = nullptr;

std::vector<uint8_t> make_body(size_t n, uint32_t key) {
  std::vector<uint8_t> b(n);
  uint32_t s = key * 2654435761u + 12345;
  for (size_t i = 0; i < n; i++) { s = s * 1664525u + 1013904223u; b[i] = (uint8_t)(s >> 24) ^ (uint8_t)(i * 7); }
  return b;
}

Transfer *by_token(coap_bin_const_t t) {
  for (auto &x : G->tr) if (x.token.size() == t.length && memcmp(x.token.data(), t.s, t.length) == 0) return &x;
  return nullptr;
}

void release_cb(coap_session_t *, void *app_ptr) {
  intptr_t v = (intptr_t)app_ptr;
  size_t idx = (size_t)(v >> 1);
  if (idx < G->tr.size()) { if (v & 1) G->tr[idx].down_release++; else G->tr[idx].up_release++; }
}

Piece record_piece(const coap_pdu_t *pdu, const std::vector<uint8_t> &body) {
  size_t len = 0, offset = 0, total = 0;
  const uint8_t *data = nullptr;
  Piece p{0, 0, 0, true};
  if (!coap_get_data_large(pdu, &len, &data, &offset, &total)) return p;
  p.offset = offset; p.len = len; p.total = total;
  p.content_ok = offset + len <= body.size() && (len == 0 || memcmp(data, body.data() + offset, len) == 0);
  // one block of the body (the last one, or any block-aligned one) presented as if it were a whole body
  p.is_tail = !p.content_ok && offset == 0 && len > 0 && len < body.size() && memcmp(data, body.data() + body.size() - len, len) == 0;
  if (!p.content_ok && !p.is_tail && offset == 0 && len > 0 && len < body.size() && total == len)
    for (size_t off = len; off + len <= body.size(); off += len) if (memcmp(data, body.data() + off, len) == 0) { p.is_tail = true; break; }
  return p;
}

void srv_handler(coap_resource_t *resource, coap_session_t *session, const coap_pdu_t *request, const coap_string_t *query, coap_pdu_t *response) {
  // the server identifies the transfer by the query "i=<n>": the token on the wire is the peer's business
  // (the client library uses its own tokens for follow-up blocks)
  Transfer *t = nullptr;
  if (query && query->length >= 3 && query->s[0] == 'i' && query->s[1] == '=') { size_t n = (size_t)(query->s[2] - '0'); if (n < G->tr.size()) t = &G->tr[n]; }
  coap_pdu_code_t method = coap_pdu_get_code(request);
  if (!t) { coap_pdu_set_code(response, COAP_RESPONSE_CODE_BAD_REQUEST); return; }
  size_t idx = (size_t)(t - &G->tr[0]);
  bool final_up = true;
  if (method == COAP_REQUEST_CODE_PUT || method == COAP_REQUEST_CODE_POST) {
    Piece p = record_piece(request, t->up);
    t->srv_pieces.push_back(p);
    final_up = p.offset + p.len >= p.total;
    if (p.offset == 0 && p.len == p.total && p.total == t->up.size()) t->srv_complete++;
    else if (!G->srv_single && final_up && p.offset + p.len == t->up.size()) t->srv_complete++;
    char b[96];
    snprintf(b, sizeof b, "SRV tok=%s piece off=%zu len=%zu total=%zu %s", hex(t->token, 4).c_str(), p.offset, p.len, p.total, p.content_ok ? "" : "CONTENT-MISMATCH");
    G->w->callback(b);
  }
  if (method == COAP_REQUEST_CODE_PUT) { coap_pdu_set_code(response, final_up ? COAP_RESPONSE_CODE_CHANGED : COAP_RESPONSE_CODE_CONTINUE); return; }
  if (!final_up) { coap_pdu_set_code(response, COAP_RESPONSE_CODE_CONTINUE); return; }
  // GET, or POST once the upload is complete: large response
  coap_pdu_set_code(response, COAP_RESPONSE_CODE_CONTENT);
  int ok = coap_add_data_large_response(resource, session, request, response, query, COAP_MEDIATYPE_APPLICATION_OCTET_STREAM, -1, 0,
                                        t->down.size(), t->down.data(), release_cb, (void *)(intptr_t)(idx << 1 | 1));
  t->down_added++;
  (void)ok;
  if (!ok) G->refused = true;
  G->w->callback(std::string("SRV large response ") + (ok ? "added" : "refused"));
}

coap_response_t cli_handler(coap_session_t *, const coap_pdu_t *, const coap_pdu_t *rcvd, const coap_mid_t) {
  Transfer *t = by_token(coap_pdu_get_token(rcvd));
  if (!t) { G->foreign_tokens++; G->foreign_codes.push_back((uint8_t)coap_pdu_get_code(rcvd)); G->w->callback("CLI response with foreign token " + hex(coap_pdu_get_token(rcvd).s, coap_pdu_get_token(rcvd).length, 8)); return COAP_RESPONSE_OK; }
  uint8_t code = (uint8_t)coap_pdu_get_code(rcvd);
  t->cli_codes.push_back(code);
  char b[128];
  if ((code >> 5) == 2 && t->kind != 0 && code == 0x45) {
    Piece p = record_piece(rcvd, t->down);
    t->cli_pieces.push_back(p);
    bool fin = p.offset + p.len >= p.total;
    if (fin && p.offset + p.len == t->down.size()) t->cli_complete++;
    snprintf(b, sizeof b, "CLI tok=%s %u.%02u piece off=%zu len=%zu total=%zu %s", hex(t->token, 4).c_str(), code >> 5, code & 31, p.offset, p.len, p.total, p.content_ok ? "" : "CONTENT-MISMATCH");
    if (fin) t->cli_final_calls++;
  } else {
    snprintf(b, sizeof b, "CLI tok=%s %u.%02u", hex(t->token, 4).c_str(), code >> 5, code & 31);
    if (code != 0x5f) t->cli_final_calls++;   // 2.31 Continue is an intermediate response
  }
  G->w->callback(b);
  return COAP_RESPONSE_OK;
}

void nack_handler(coap_session_t *, const coap_pdu_t *sent, const coap_nack_reason_t reason, const coap_mid_t) {
  Transfer *t = sent ? by_token(coap_pdu_get_token(sent)) : nullptr;
  char b[96];
  snprintf(b, sizeof b, "NACK tok=%s reason=%d", t ? hex(t->token, 4).c_str() : "?", (int)reason);
  G->w->callback(b);
  if (t) t->nacks++;
  else if (sent) G->foreign_tokens++;
}

size_t gen_body_len(Tape &t, bool big) {
  switch (t.pick({1, 1, 6, 3})) {
  case 0: return 0;
  case 1: return 1;
  case 2: { unsigned szx = t.range(0, 6), k = t.range(1, 5); size_t bs = (size_t)16 << szx; int d = (int)t.range(0, 2) - 1; size_t n = k * bs + d; if (n > 5200 && !big) n = k * 1024 / 5 + d; return n; }
  default: return big ? t.range(0, 65536) : t.range(0, 6000);
  }
}

}  // namespace

void verif_init() {
  coap_startup();
  coap_set_log_level(getenv("C09_DEBUG") ? COAP_LOG_DEBUG : COAP_LOG_EMERG);
}

// ---- scenario (S): a scripted peer (not libcoap) uploads two bodies to ONE resource of a libcoap server at the same time, its blocks interleaved;
// the uploads are told apart by the Request-Tag option (RFC 9175 3.3: one of them may go without; libcoap's own client always sends one).
// Loss-free network: each body reaches the handler exactly once and intact, each upload is answered 2.04.
struct SUpload { std::vector<uint8_t> body, rtag, token; bool tagged = false; unsigned next = 0; bool done = false; int final_code = -1; unsigned complete = 0; };
struct SCase { World *w; std::vector<SUpload> up; bool single = true; unsigned bad_pieces = 0; std::string first_bad; } *GS = nullptr;

void s_handler(coap_resource_t *, coap_session_t *, const coap_pdu_t *request, const coap_string_t *, coap_pdu_t *response) {
  size_t len = 0, offset = 0, total = 0;
  const uint8_t *data = nullptr;
  coap_get_data_large(request, &len, &data, &offset, &total);
  bool final_up = offset + len >= total;
  // which upload is this a piece of?  (the bodies differ in every block)
  int who = -1;
  for (size_t i = 0; i < GS->up.size(); i++) {
    auto &b = GS->up[i].body;
    if (offset + len <= b.size() && len > 0 && memcmp(data, b.data() + offset, len) == 0) who = (int)i;
  }
  char nb[160];
  snprintf(nb, sizeof nb, "SRV piece off=%zu len=%zu total=%zu -> %s", offset, len, total, who < 0 ? "NO UPLOAD HAS THESE BYTES AT THIS OFFSET" : who == 0 ? "X" : "Y");
  GS->w->callback(nb);
  if (who < 0) { GS->bad_pieces++; if (GS->first_bad.empty()) GS->first_bad = nb; }
  else if (final_up && offset + len == GS->up[(size_t)who].body.size() && (!GS->single || offset == 0)) GS->up[(size_t)who].complete++;
  coap_pdu_set_code(response, final_up ? COAP_RESPONSE_CODE_CHANGED : COAP_RESPONSE_CODE_CONTINUE);
}

int scripted_uploads(const uint8_t *tape, size_t tlen, Info *info) {
  std::vector<uint8_t> rev(tape, tape + tlen - 1);
  std::reverse(rev.begin(), rev.end());
  Tape t(rev.data(), rev.size());
  SCase sc;
  GS = &sc;
  World w;
  sc.w = &w;
  seed_prng(t.u16());
  sc.single = t.flag();
  unsigned szx = t.range(0, 3);
  size_t bs = (size_t)16 << szx;
  size_t tagging = t.pick({2, 2, 1});   // X untagged / Y tagged; X tagged / Y untagged; both tagged (different tags)
  bool size1 = t.flag();
  for (unsigned i = 0; i < 2; i++) {
    SUpload u;
    size_t nblk = t.range(2, 5);
    u.body = make_body(nblk * bs - (t.flag() ? t.range(0, (uint32_t)bs - 1) : 0), 700 + i);
    u.tagged = tagging == 2 || tagging == i;
    u.rtag = {(uint8_t)(0x30 + i), (uint8_t)t.u8()};
    u.token = {(uint8_t)(0xD0 + i), 0x11};
    sc.up.push_back(u);
  }
  coap_context_t *sctx = coap_new_context(nullptr);
  if (!sctx) { GS = nullptr; return OUT_OF_DOMAIN; }
  coap_context_set_block_mode(sctx, COAP_BLOCK_USE_LIBCOAP | (sc.single ? COAP_BLOCK_SINGLE_BODY : 0));
  Addr srv = Addr::v4(10, 0, 0, 1, 5683);
  coap_address_t la;
  srv.to_coap(&la);
  coap_new_endpoint(sctx, &la, COAP_PROTO_UDP);
  coap_resource_t *res = coap_resource_init(coap_make_str_const("s"), 0);
  coap_register_handler(res, COAP_REQUEST_PUT, s_handler);
  coap_add_resource(sctx, res);
  w.add_context(sctx);
  Peer *peer = w.add_peer(Addr::v4(10, 0, 3, 1, 40001));
  uint16_t mid = 0x4000;
  std::vector<uint32_t> gaps;
  for (int i = 0; i < 16; i++) gaps.push_back(t.pick({2, 1}) ? 0 : t.range(1, 40));
  unsigned sent_blocks = 0;
  auto send_block = [&](unsigned i) {
    SUpload &u = sc.up[i];
    size_t off = (size_t)u.next * bs;
    if (off >= u.body.size()) return;
    size_t n = std::min(bs, u.body.size() - off);
    bool more = off + n < u.body.size();
    ref::Msg m;
    m.type = 0; m.code = 3; m.mid = mid++; m.token = u.token;
    m.opts.push_back(ref::Opt{11, {'s'}});
    m.opts.push_back(ref::Opt{27, simh::uint_opt((uint32_t)u.next << 4 | (more ? 8 : 0) | szx)});
    if (size1 && u.next == 0) m.opts.push_back(ref::Opt{60, simh::uint_opt((uint32_t)u.body.size())});
    if (u.tagged) m.opts.push_back(ref::Opt{292, u.rtag});
    m.payload.assign(u.body.begin() + (long)off, u.body.begin() + (long)(off + n));
    uint32_t gap = gaps[sent_blocks++ % gaps.size()];
    w.peer_send(peer, srv, ref::encode(m, ref::F_UDP), gap);
  };
  peer->on_rx = [&](World &, Peer &, const Datagram &d) {
    ref::Msg r;
    if (!simh::parse(d.data, &r) || r.code < 64) return;
    for (unsigned i = 0; i < 2; i++) if (r.token == sc.up[i].token && !sc.up[i].done) {
      if (r.code == 0x5f) { sc.up[i].next++; send_block(i); }      // 2.31 Continue: the next block of this upload
      else { sc.up[i].done = true; sc.up[i].final_code = r.code; }
    }
  };
  unsigned first = t.flag() ? 1 : 0;
  send_block(first);
  send_block(1 - first);
  bool quiet = w.run(w.now + 120000, 40000);
  int verdict = HELD;
  char cfg[200];
  snprintf(cfg, sizeof cfg, "scripted peer, two interleaved Block1 uploads to one resource: %s server, %zu byte blocks, X %zu bytes %s, Y %zu bytes %s, Size1 %s; ", sc.single ? "single-body" : "per-block",
           bs, sc.up[0].body.size(), sc.up[0].tagged ? "tagged" : "untagged", sc.up[1].body.size(), sc.up[1].tagged ? "tagged" : "untagged", size1 ? "sent" : "not sent");
  if (sc.bad_pieces) { info->fail("%s%u piece(s) handed to the server application are not the bytes of either upload at that offset (first: %s)", cfg, sc.bad_pieces, sc.first_bad.c_str()); verdict = VIOLATION; }
  else if (quiet) for (unsigned i = 0; i < 2 && verdict == HELD; i++) {
    SUpload &u = sc.up[i];
    if (u.complete != 1) { info->fail("%sloss-free network: the body of upload %s was completed at the server application %u time(s)", cfg, i ? "Y" : "X", u.complete); verdict = VIOLATION; }
    else if (u.final_code != 0x44) { info->fail("%sloss-free network: upload %s ended with %s instead of 2.04", cfg, i ? "Y" : "X", u.final_code < 0 ? "no response" : (std::to_string(u.final_code >> 5) + "." + std::to_string(u.final_code & 31)).c_str()); verdict = VIOLATION; }
  }
  if (!quiet) info->inconclusive = true;
  info->nontrivial = true;
  info->label("scripted-peer:two-interleaved-uploads-one-resource");
  info->label(tagging == 2 ? "scripted-peer:both-tagged" : "scripted-peer:one-untagged");
  info->rs(cfg);
  info->rs(simh::render_trace(w, 40));
  info->mix(cfg, strlen(cfg));
  for (auto &e : w.trace) if (e.kind == EV_SEND) { info->mixu(e.t); info->mix(e.data.data(), std::min<size_t>(e.data.size(), 24)); }
  w.remove_context(sctx);
  coap_free_context(sctx);
  GS = nullptr;
  return verdict;
}

int verif_case(const uint8_t *tape, size_t tlen, Info *info) {
  // (last tape byte, longer tapes only: the saved replays keep their meaning) one case in eight is scenario (S)
  if (tlen >= 48 && tape[tlen - 1] < 32) return scripted_uploads(tape, tlen, info);
  Tape t(tape, tlen);
  Case cs;
  G = &cs;
  World w;
  w.record_payloads = true;
  cs.w = &w;
  seed_prng(t.u16());
  bool big = getenv("VERIF_TIER") && !strcmp(getenv("VERIF_TIER"), "thorough") && t.chance(32);
  cs.srv_single = t.pick({1, 1}) == 0;
  cs.cli_single = t.pick({1, 1}) == 0;
  bool con = t.pick({3, 1}) == 0;
  unsigned cli_mtu = t.pick({2, 3}) ? t.range(64, 1152) : 1152;
  static const unsigned BS[] = {0, 16, 32, 64, 128, 256, 512, 1024};
  unsigned srv_maxblk = t.pick({1, 1}) ? t.choose(BS) : 0;
  unsigned ntr = (unsigned)t.pick({4, 1}) + 1;
  for (unsigned i = 0; i < ntr; i++) {
    Transfer tr;
    tr.kind = (int)t.pick({3, 3, 2});
    tr.token = {(uint8_t)(0xC0 + i), (uint8_t)t.u8(), 0x55};
    if (tr.kind != 1) tr.up = make_body(gen_body_len(t, big), 100 + i);
    if (tr.kind != 0) tr.down = make_body(gen_body_len(t, big), 200 + i);
    tr.req_szx = t.pick({2, 1}) ? 7 : (uint8_t)t.range(0, 6);
    cs.tr.push_back(tr);
  }
  std::vector<FaultDecision> faults(40);
  bool any_fault = false;
  if (t.pick({1, 2})) {
    for (auto &f : faults) {
      switch (t.pick({10, 2, 1, 1})) {
      case 0: break;
      case 1: f.fate = DROP; any_fault = true; break;
      case 2: f.dups = 1; f.dup_delay = t.range(0, 1500); any_fault = true; break;
      default: f.delay = t.range(1, 1500); any_fault = true; break;
      }
    }
  }
  bool fault_hit = false;
  w.fault = [&](const Datagram &, unsigned idx) {
    FaultDecision f = idx < faults.size() ? faults[idx] : FaultDecision();
    if (f.fate == DROP || f.dups || f.delay) fault_hit = true;
    return f;
  };

  coap_context_t *sctx = coap_new_context(nullptr), *cctx = coap_new_context(nullptr);
  if (!sctx || !cctx) { if (sctx) coap_free_context(sctx); if (cctx) coap_free_context(cctx); G = nullptr; return OUT_OF_DOMAIN; }
  coap_context_set_block_mode(sctx, COAP_BLOCK_USE_LIBCOAP | (cs.srv_single ? COAP_BLOCK_SINGLE_BODY : 0));
  coap_context_set_block_mode(cctx, COAP_BLOCK_USE_LIBCOAP | (cs.cli_single ? COAP_BLOCK_SINGLE_BODY : 0));
  if (srv_maxblk) coap_context_set_max_block_size(sctx, srv_maxblk);
  Addr srv = Addr::v4(10, 0, 0, 1, 5683);
  coap_address_t la;
  srv.to_coap(&la);
  coap_new_endpoint(sctx, &la, COAP_PROTO_UDP);
  coap_resource_t *res = coap_resource_init(coap_make_str_const("b"), 0);
  coap_register_handler(res, COAP_REQUEST_PUT, srv_handler);
  coap_register_handler(res, COAP_REQUEST_GET, srv_handler);
  coap_register_handler(res, COAP_REQUEST_POST, srv_handler);
  coap_add_resource(sctx, res);
  // the MTU is a property of the path: the server's session gets the same value when it is created
  static unsigned s_mtu;
  s_mtu = cli_mtu;
  coap_register_event_handler(sctx, [](coap_session_t *s, const coap_event_t ev) -> int { if (ev == COAP_EVENT_SERVER_SESSION_NEW) coap_session_set_mtu(s, s_mtu); return 0; });
  coap_register_response_handler(cctx, cli_handler);
  coap_register_nack_handler(cctx, nack_handler);
  w.add_context(sctx);
  w.add_context(cctx);
  coap_session_t *session = coap_new_client_session(cctx, nullptr, &la, COAP_PROTO_UDP);
  if (!session) { coap_free_context(cctx); coap_free_context(sctx); G = nullptr; return OUT_OF_DOMAIN; }
  coap_session_set_mtu(session, cli_mtu);
  coap_session_set_max_retransmit(session, 3);
  // MAX_TRANSMIT_WAIT of this session = ACK_TIMEOUT * (2^(MAX_RETRANSMIT+1) - 1) * ACK_RANDOM_FACTOR
  double max_transmit_wait_ms;
  {
    coap_fixed_point_t at = coap_session_get_ack_timeout(session), arf = coap_session_get_ack_random_factor(session);
    max_transmit_wait_ms = (at.integer_part * 1000.0 + at.fractional_part) * ((1u << (coap_session_get_max_retransmit(session) + 1)) - 1) * (arf.integer_part + arf.fractional_part / 1000.0);
  }
  Addr cli_local = Addr::from_coap(coap_session_get_addr_local(session));

  for (size_t i = 0; i < cs.tr.size(); i++) {
    w.at(w.now + i * (t.pick({1, 1}) ? 0 : t.range(1, 3000)), [&, i]() {
      Transfer &tr = cs.tr[i];
      coap_pdu_code_t code = tr.kind == 0 ? COAP_REQUEST_CODE_PUT : tr.kind == 1 ? COAP_REQUEST_CODE_GET : COAP_REQUEST_CODE_POST;
      coap_pdu_t *pdu = coap_new_pdu(con ? COAP_MESSAGE_CON : COAP_MESSAGE_NON, code, session);
      if (!pdu) return;
      coap_add_token(pdu, tr.token.size(), tr.token.data());
      coap_add_option(pdu, COAP_OPTION_URI_PATH, 1, (const uint8_t *)"b");
      { char q[4] = {'i', '=', (char)('0' + i), 0}; coap_add_option(pdu, COAP_OPTION_URI_QUERY, 3, (const uint8_t *)q); }
      if (tr.kind == 1 && tr.req_szx != 7) { uint8_t v = tr.req_szx; coap_add_option(pdu, COAP_OPTION_BLOCK2, v ? 1 : 0, &v); }
      if (tr.kind != 1) {
        tr.up_added++;  // ownership of the data passes to the library with the call: the release callback runs exactly once, also when the call fails
        if (!coap_add_data_large_request(session, pdu, tr.up.size(), tr.up.data(), release_cb, (void *)(intptr_t)(i << 1))) { coap_delete_pdu(pdu); w.note("large request refused"); cs.refused = true; return; }
      }
      tr.submit_t = w.now;
      tr.sent = coap_send(session, pdu) != COAP_INVALID_MID;
      if (!tr.sent) w.note("send refused");
    });
  }
  bool quiet = w.run(w.now + 3000000ull, 200000);

  int verdict = HELD;
  bool nontrivial = false;
#define FAIL_IF(c) do { if (c) { verdict = VIOLATION; goto teardown; } } while (0)
  if (cs.foreign_tokens) {
    // Known finding (structural key): the final Block1 block is delivered to the server a second time after the transfer completed;
    // the server starts a new (incomplete) reassembly and later answers 4.08 with the token of that block message, which is a token
    // the client library substituted; the client has released its state and hands the response to the application.
    bool all_408 = true;
    for (uint8_t c : cs.foreign_codes) if (c != 0x88) all_408 = false;
    unsigned final_block_deliveries = 0;
    std::map<std::vector<uint8_t>, unsigned> seen;
    for (auto &e : w.trace) {
      ref::Msg m;
      if (e.kind != EV_DELIVER || !simh::parse(e.data, &m)) continue;
      if (!ref::is_request(m.code)) {
        // a response to a follow-up block (it echoes a library token) delivered to the client twice (network duplicate)
        // (also the response to the first block, which echoes the application's token: its duplicate makes the client send follow-up
        // blocks a second time, and the answers to those arrive after the state is gone)
        if (m.code >= 64 && e.dst == cli_local && ++seen[e.data] > 1) final_block_deliveries++;
        continue;
      }
      const ref::Opt *b1 = simh::find_opt(m, 27);
      // the same block (number + content) reaching the server twice: network duplicate, retransmission, or re-sent by the NON recovery
      if (b1 && (simh::opt_uint(b1->val) >> 4) > 0) { std::vector<uint8_t> k = b1->val; k.push_back(0xFF); k.insert(k.end(), m.payload.begin(), m.payload.end()); if (++seen[k] > 1) final_block_deliveries++; }
    }
    (void)all_408;
    // (the token surfaces in the response handler, or - when the stale 4.08 concluded the transfer while a later request of the same
    // transfer was still queued and is given up afterwards - in the NACK handler)
    if (final_block_deliveries && exclude_known(info, "stale-response-with-library-token-after-transfer-state-released")) { info->label("excluded:redelivered-final-block1"); goto teardown; }
  }
  if (cs.foreign_tokens) { info->fail("a client-side handler saw a token that the application never used (%d time(s)) - a token substituted by libcoap surfaced", cs.foreign_tokens); FAIL_IF(1); }
  // datagram sizes
  for (auto &e : w.trace) {
    if (e.kind != EV_SEND || !e.from_lib) continue;
    unsigned limit = cli_mtu;
    if (e.data.size() > limit) { info->fail("datagram of %zu bytes sent by the %s, its maximum message size is %u", e.data.size(), e.src == cli_local ? "client" : "server", limit); FAIL_IF(1); }
  }
  for (auto &tr : cs.tr) {
    if (!tr.sent) continue;
    std::string id = "transfer tok=" + hex(tr.token, 4) + (tr.kind == 0 ? " upload" : tr.kind == 1 ? " download" : " upload+download");
    for (auto &p : tr.srv_pieces) if (!p.content_ok) { info->fail("%s: server handler obtained bytes that differ from the sender's body (offset %zu len %zu total %zu, body %zu)", id.c_str(), p.offset, p.len, p.total, tr.up.size()); FAIL_IF(1); }
    {
      // Known finding (structural key): the request for a Block2 block is re-delivered to the server after its lg_xmit expired (8 s after
      // the last block was sent): the server hands it to the application handler as a random-access request, the answer carries no ETag,
      // the client gives up the reassembly and passes that single block to the application as a 2.05 response
      bool redelivered_b2_req = false;
      // (the request - first copy or retransmission - reaches the server 7 s or more after the server last sent a block of a response body)
      uint64_t last_block_sent = UINT64_MAX;
      for (auto &e : w.trace) {
        ref::Msg m;
        if (!simh::parse(e.data, &m)) continue;
        const ref::Opt *b2 = simh::find_opt(m, 23);
        if (!b2) continue;
        if (e.kind == EV_SEND && e.from_lib && !ref::is_request(m.code) && !(e.src == cli_local)) last_block_sent = e.t;
        if (e.kind == EV_DELIVER && ref::is_request(m.code) && (simh::opt_uint(b2->val) >> 4) > 0 && last_block_sent != UINT64_MAX && e.t >= last_block_sent + 7000) redelivered_b2_req = true;
      }
      bool only_tail = true, any_bad = false;
      for (auto &p : tr.cli_pieces) if (!p.content_ok) { any_bad = true; if (!p.is_tail) only_tail = false; }
      if (any_bad && only_tail && redelivered_b2_req && exclude_known(info, "block2-request-redelivered-after-lg-xmit-expiry-partial-body-as-2.05")) { info->label("excluded:block2-after-lg-xmit-expiry"); continue; }
    }
    for (auto &p : tr.cli_pieces) if (!p.content_ok) { info->fail("%s: client handler obtained bytes that differ from the sender's body (offset %zu len %zu total %zu, body %zu)", id.c_str(), p.offset, p.len, p.total, tr.down.size()); FAIL_IF(1); }
    // "at most once per transfer" is about block-wise transfers: a body that travels in a single message is re-processed when that
    // message is retransmitted or duplicated (no request de-duplication - outside this property)
    bool up_blockwise = false, down_blockwise = false;
    for (auto &e : w.trace) {
      ref::Msg m;
      if (e.kind != EV_SEND || !e.from_lib || !simh::parse(e.data, &m)) continue;
      const ref::Opt *b1 = simh::find_opt(m, 27), *b2 = simh::find_opt(m, 23);
      if (b1 && ref::is_request(m.code) && (simh::opt_uint(b1->val) >> 4) > 0) up_blockwise = true;
      if (b2 && !ref::is_request(m.code) && ((simh::opt_uint(b2->val) >> 4) > 0 || (simh::opt_uint(b2->val) & 8))) down_blockwise = true;
    }
    if (cs.tr.size() > 1) {
      // with two transfers on the session decide per transfer: follow-up requests carry the query "i=<n>" of their transfer
      size_t my = (size_t)(&tr - &cs.tr[0]);
      up_blockwise = down_blockwise = false;
      for (auto &e : w.trace) {
        ref::Msg m;
        if (e.kind != EV_SEND || !e.from_lib || !simh::parse(e.data, &m) || !ref::is_request(m.code)) continue;
        const ref::Opt *q = simh::find_opt(m, 15);
        if (!q || q->val.size() != 3 || q->val[2] != (uint8_t)('0' + my)) continue;
        const ref::Opt *b1 = simh::find_opt(m, 27), *b2 = simh::find_opt(m, 23);
        if (b1 && (simh::opt_uint(b1->val) >> 4) > 0) up_blockwise = true;
        if (b2 && (simh::opt_uint(b2->val) >> 4) > 0) down_blockwise = true;
      }
    }
    // the libcoap server has no request de-duplication: was any request message (same method, query, block options and payload) delivered twice?
    bool request_redelivered = false;
    {
      std::map<std::vector<uint8_t>, unsigned> seenreq;
      for (auto &e : w.trace) {
        ref::Msg m;
        if (e.kind != EV_DELIVER || !simh::parse(e.data, &m) || !ref::is_request(m.code)) continue;
        std::vector<uint8_t> k = {m.code};
        for (auto &o : m.opts) if (o.num == 15 || o.num == 23 || o.num == 27) { k.push_back((uint8_t)o.num); k.insert(k.end(), o.val.begin(), o.val.end()); k.push_back(0xFE); }
        k.insert(k.end(), m.payload.begin(), m.payload.end());
        if (++seenreq[k] > 1) request_redelivered = true;
      }
    }
    if (down_blockwise && tr.cli_complete > 1 && request_redelivered && exclude_known(info, "redelivered-request-message-processed-again")) { info->label("excluded:request-redelivery(download)"); continue; }
    if (up_blockwise && tr.srv_complete > 1) {
      // Known finding (structural key): per-block delivery mode hands a re-delivered (duplicated / retransmitted) Block1 message to the
      // handler again - there is no de-duplication of block messages in this mode
      std::map<std::vector<uint8_t>, unsigned> seen;
      bool redelivered = false;
      for (auto &e : w.trace) {
        ref::Msg m;
        if (e.kind != EV_DELIVER || !simh::parse(e.data, &m) || !ref::is_request(m.code) || !simh::find_opt(m, 27)) continue;
        std::vector<uint8_t> k = simh::find_opt(m, 27)->val;
        k.push_back(0xFF);
        k.insert(k.end(), m.payload.begin(), m.payload.end());
        if (++seen[k] > 1) redelivered = true;
      }
      if (redelivered && exclude_known(info, "redelivered-request-message-processed-again")) { info->label("excluded:per-block-redelivery"); continue; }
    }
    if (up_blockwise && tr.srv_complete > 1) { info->fail("%s: request body delivered completely %d times", id.c_str(), tr.srv_complete); FAIL_IF(1); }
    if (down_blockwise && !(tr.kind == 2 && !up_blockwise) && tr.cli_complete > 1) { info->fail("%s: response body delivered completely %d times", id.c_str(), tr.cli_complete); FAIL_IF(1); }
    if (cs.srv_single) for (auto &p : tr.srv_pieces) if (p.offset != 0 || p.len != p.total) { info->fail("%s: single-body server handler got a partial piece (offset %zu len %zu total %zu)", id.c_str(), p.offset, p.len, p.total); FAIL_IF(1); }
    if (cs.cli_single) for (auto &p : tr.cli_pieces) if (p.offset != 0 || p.len != p.total) { info->fail("%s: single-body client handler got a partial piece (offset %zu len %zu total %zu)", id.c_str(), p.offset, p.len, p.total); FAIL_IF(1); }
    // per-block tiling on success
    auto tiles = [](std::vector<Piece> v, size_t total) {
      std::sort(v.begin(), v.end(), [](const Piece &a, const Piece &b) { return a.offset < b.offset; });
      size_t at = 0;
      for (auto &p : v) { if (p.offset > at) return false; at = std::max(at, p.offset + p.len); }
      return at == total;
    };
    // "tile it exactly": no gap and no byte handed over twice
    auto tiles_exactly = [](std::vector<Piece> v, size_t total) {
      std::sort(v.begin(), v.end(), [](const Piece &a, const Piece &b) { return a.offset < b.offset; });
      size_t at = 0;
      for (auto &p : v) { if (p.offset != at) return false; at = p.offset + p.len; }
      return at == total;
    };
    bool success = false, error = false;
    for (uint8_t c : tr.cli_codes) { if ((c >> 5) == 2 && c != 0x5f) success = true; if ((c >> 5) >= 4) error = true; }
    if (tr.kind != 1 && tr.srv_complete == 1 && !cs.srv_single && !tiles(tr.srv_pieces, tr.up.size())) { info->fail("%s: blocks handed to the server handler do not tile the body", id.c_str()); FAIL_IF(1); }
    if (tr.kind != 0 && tr.cli_complete == 1 && !cs.cli_single && !tiles(tr.cli_pieces, tr.down.size())) { info->fail("%s: blocks handed to the client handler do not tile the body", id.c_str()); FAIL_IF(1); }
    if (tr.kind != 0 && tr.cli_complete == 1 && !cs.cli_single && down_blockwise && !tiles_exactly(tr.cli_pieces, tr.down.size())) {
      if (request_redelivered && exclude_known(info, "redelivered-request-message-processed-again")) { info->label("excluded:request-redelivery(download piece twice)"); continue; }
      std::string ps;
      for (auto &p : tr.cli_pieces) ps += " [" + std::to_string(p.offset) + "+" + std::to_string(p.len) + ")";
      info->fail("%s: blocks handed to the client handler cover the body but not exactly once:%s", id.c_str(), ps.c_str()); FAIL_IF(1);
    }
    if (tr.kind != 1 && tr.srv_complete == 1 && !cs.srv_single && up_blockwise && !tiles_exactly(tr.srv_pieces, tr.up.size())) {
      if (request_redelivered && exclude_known(info, "redelivered-request-message-processed-again")) { info->label("excluded:request-redelivery(upload piece twice)"); continue; }
      std::string ps;
      for (auto &p : tr.srv_pieces) ps += " [" + std::to_string(p.offset) + "+" + std::to_string(p.len) + ")";
      info->fail("%s: blocks handed to the server handler cover the body but not exactly once:%s", id.c_str(), ps.c_str()); FAIL_IF(1);
    }
    if (!fault_hit && quiet && cs.tr.size() == 1 && !cs.refused) {
      if (tr.kind != 1 && tr.srv_complete != 1) { info->fail("%s: no datagram lost, request body delivered %d times", id.c_str(), tr.srv_complete); FAIL_IF(1); }
      if (tr.kind != 0 && tr.cli_complete != 1) { info->fail("%s: no datagram lost, response body delivered %d times", id.c_str(), tr.cli_complete); FAIL_IF(1); }
      if (!success) { info->fail("%s: no datagram lost but no success response reached the requester", id.c_str()); FAIL_IF(1); }
      if (tr.cli_final_calls != 1 && (cs.cli_single || tr.kind == 0)) { info->fail("%s: no datagram lost, %d final responses delivered", id.c_str(), tr.cli_final_calls); FAIL_IF(1); }
    }
    if (con && quiet && !success && !error && !tr.nacks) {
      // Known finding (structural key): the only message that would have told the requester (a response echoing a library token, sent
      // in answer to a re-delivered block) was lost; the client later drops its lg_xmit/lg_crcv with COAP_EVENT_XMIT_BLOCK_FAIL only
      bool lost_lib_token_response = false;
      for (auto &e : w.trace) {
        ref::Msg m;
        if (e.kind == EV_DROP && simh::parse(e.data, &m) && m.code >= 64 && e.dst == cli_local && m.token.size() >= 6) lost_lib_token_response = true;
      }
      if (lost_lib_token_response && exclude_known(info, "abandoned-block-transfer-reported-by-event-only")) { info->label("excluded:abandoned-event-only"); continue; }
      // Known finding (structural key): the client counts the life of its upload state (lg_xmit, MAX_TRANSMIT_WAIT) from the moment the
      // application submitted the request, not from the first transmission: when the first block waited behind another exchange (NSTART)
      // and/or was retransmitted so long that the first response arrives later than that, the state is gone (COAP_EVENT_XMIT_BLOCK_FAIL
      // only), the 2.31 is handed to the application as if it were the answer and the rest of the body is never sent
      bool saw_continue = false;
      for (uint8_t c : tr.cli_codes) if (c == 0x5f) saw_continue = true;
      uint64_t first_resp = UINT64_MAX;
      for (auto &e : w.trace) {
        ref::Msg m;
        if (e.kind == EV_DELIVER && e.dst == cli_local && simh::parse(e.data, &m) && m.code >= 64 && m.token == tr.token) { first_resp = e.t; break; }
      }
      uint64_t mtw = (uint64_t)max_transmit_wait_ms;
      if (saw_continue && tr.kind != 1 && first_resp != UINT64_MAX && first_resp >= tr.submit_t + mtw &&
          exclude_known(info, "upload-state-expired-before-first-response-arrived")) { info->label("excluded:upload-state-expired-before-first-response"); continue; }
    }
    if (con && quiet && !success && !error && !tr.nacks) { info->fail("%s: Confirmable transfer ended in silence (no success, no error response, no NACK)", id.c_str()); FAIL_IF(1); }
    size_t upbs = std::min<size_t>(1024, cli_mtu > 80 ? cli_mtu - 60 : 16), body = std::max(tr.up.size(), tr.down.size());
    bool boundary = false;
    for (unsigned szx = 0; szx <= 6; szx++) { size_t bs = (size_t)16 << szx; if (body > bs && (body % bs == 0 || body % bs == 1 || body % bs == bs - 1)) boundary = true; }
    if (body > upbs / 2 + 16 && body > 64 && (fault_hit || boundary || cli_mtu < 1152)) nontrivial = true;
    info->label(success ? "end:success" : error ? "end:error-response" : tr.nacks ? "end:nack" : "end:open");
  }
teardown:
  info->nontrivial = nontrivial;
  if (!quiet || w.hit_cap) info->inconclusive = true;
  if (fault_hit) info->label("faults"); else info->label("no-faults");
  (void)any_fault;
  {
    char b[200];
    snprintf(b, sizeof b, "srv_single=%d cli_single=%d %s mtu=%u maxblk=%u;", cs.srv_single, cs.cli_single, con ? "CON" : "NON", cli_mtu, srv_maxblk);
    info->rs(b);
    for (auto &tr : cs.tr) { snprintf(b, sizeof b, " T{%s up=%zu down=%zu szx=%u srvcalls=%zu clicalls=%zu}", tr.kind == 0 ? "PUT" : tr.kind == 1 ? "GET" : "POST", tr.up.size(), tr.down.size(), tr.req_szx, tr.srv_pieces.size(), tr.cli_pieces.size()); info->rs(b); }
    size_t n = 0;
    for (auto &e : w.trace) {
      if (e.kind == EV_SEND || e.kind == EV_DROP) { info->mixu(e.t); info->mixu(e.kind); info->mixu(e.data.size()); }
      if ((e.kind == EV_CALLBACK || e.kind == EV_DROP) && n++ < 40) { info->rs(" @" + std::to_string(e.t) + " " + (e.kind == EV_DROP ? "LOST#" + std::to_string(e.index) : e.note) + ";"); }
    }
    info->mixu(cs.srv_single); info->mixu(cs.cli_single); info->mixu(cli_mtu); info->mixu(srv_maxblk);
  }
  w.remove_context(cctx);
  coap_free_context(cctx);
  w.remove_context(sctx);
  coap_free_context(sctx);
  if (verdict == HELD) {
    for (auto &tr : cs.tr) {
      if (tr.up_release != tr.up_added) { info->fail("release callback of the request body ran %d time(s) for %d accepted coap_add_data_large_request call(s)", tr.up_release, tr.up_added); verdict = VIOLATION; break; }
      if (tr.down_release != tr.down_added) { info->fail("release callback of the response body ran %d time(s) for %d accepted coap_add_data_large_response call(s)", tr.down_release, tr.down_added); verdict = VIOLATION; break; }
    }
  }
  G = nullptr;
  return verdict;
}
