// C11 — Observe: registered observers get fresh, ordered notifications until cancelled.
// libcoap server with observable resources, scripted observers; temporal invariants over the wire trace.
#include "../sim/helpers.h"
using namespace verif;
using namespace sim;

const char *verif_property_id = "C11";
const char *verif_rule =
    "tape -> libcoap server with 1..3 observable resources (GET handler returns the resource's state counter; optionally NOTIFY_CON), 1..4 scripted observers, "
    "history of 3..30 operations from {register (same/new token, with/without query, CON/NON), change resource (1..3 times without I/O step in between), run I/O for 0..50 ms, "
    "advance time up to 400 s (crossing the session timeout), cancel with Observe=1 (same or other token), answer the next notification with RST, withhold ACKs, handler returns 4.04 "
    "for the next notification of one observer, delete a resource, declare an observer's session lost (coap_session_disconnected)}, per-datagram loss/duplication/delay. Oracle per registration entry (observer, resource, query): notification tokens = "
    "latest registration token; Observe values strictly increase (24-bit serial arithmetic) over distinct notifications in sending order, retransmissions byte-identical; among any 6 "
    "consecutive notifications one is CON; after a deregistration event has been delivered to the server (Observe=1, RST for the latest notification, COAP_OBS_MAX_FAIL+1 consecutive failed CON "
    "notifications, error response sent, session lost, resource deleted => one NON 4.04) no new notification is first-transmitted; one notification per change burst and entry (re-registration replaces); "
    "at quiescence the last notification sent to every live entry carries the latest state; the entry survives idle time beyond the session timeout. "
    "Notifications larger than one block (about 40 % of the cases, parameters from the end of the tape): COAP_BLOCK_USE_LIBCOAP with a maximum block size of 16/32/64, resources whose representation "
    "(coap_add_data_large_response) is 1+ .. 5 blocks long and differs in every byte range between states; observers that ignore the rest, fetch the next block only, or fetch all following blocks "
    "(NON or CON, without / with the notification's / with a foreign ETag); all obligations above apply to the first block, and every block on the wire is an exact piece of one state (Block2 number, "
    "size <= maximum, more flag, length), blocks sharing an ETag come from one state, on a loss-free network a fetching observer obtains every block of the latest representation, the release "
    "callback runs exactly once per representation. "
    "Non-trivial = >= 2 changes after a registration and a deregistration path or NSTART back-pressure exercised; distinct = by history + wire trace";
size_t verif_max_tape = 300;

namespace {

struct Entry {            // model of one registration entry at the server
  int obs, res;
  bool query;
  std::vector<uint8_t> token;
  std::set<std::vector<uint8_t>> old_tokens;   // tokens replaced by a later registration
  int st = 0;                // LIVE / UNSURE / GONE
  unsigned gen = 0;          // bumped by every registration
  uint64_t since = 0;        // time the (latest) registration request was delivered
  size_t dereg_idx = 0;
  uint64_t dereg_t = UINT64_MAX;
  const char *dereg_why = "";
  bool allow_error = false;  // one error response (4.04 of a deleted resource / handler error) may still follow
  unsigned non_run = 0;      // consecutive NON notifications
};
enum { LIVE = 0, UNSURE = 1, GONE = 2 };

struct ResState {
  coap_resource_t *r = nullptr;
  unsigned state = 0;
  bool deleted = false;
  bool notify_con = false;
  size_t big = 0;            // > 0: the representation is this many bytes long and is handed to libcoap with coap_add_data_large_response()
};

struct Case {
  World *w = nullptr;
  std::vector<ResState> res;
  int error_for_obs = -1;   // the GET handler answers 4.04 to this observer's next notification
  int error_res = -1;
  unsigned large_given = 0, large_released = 0;   // bodies handed to coap_add_data_large_response() / release callbacks seen
} *G = nullptr;

// representation of a 'big' resource in a given state: starts like the small one ("<resource>:<state>;") and goes on with bytes that depend on
// (resource, state, position), so that a block of one state cannot be mistaken for the block of another
std::vector<uint8_t> big_body(int ri, unsigned state, size_t len) {
  char b[32];
  int n = snprintf(b, sizeof b, "%d:%u;", ri, state);
  std::vector<uint8_t> v(b, b + n);
  for (size_t i = v.size(); i < len; i++) {
    uint32_t h = state * 2654435761u + (uint32_t)i * 40503u + (uint32_t)ri * 97u;
    h ^= h >> 13; h *= 0x5bd1e995u; h ^= h >> 15;
    v.push_back((uint8_t)(33 + h % 90));
  }
  v.resize(len);
  return v;
}

void release_body(coap_session_t *, void *app_ptr) {
  free(app_ptr);
  if (G) G->large_released++;
}

void get_handler(coap_resource_t *resource, coap_session_t *session, const coap_pdu_t *request, const coap_string_t *query, coap_pdu_t *response) {
  int ri = -1;
  for (size_t i = 0; i < G->res.size(); i++) if (G->res[i].r == resource) ri = (int)i;
  Addr peer = Addr::from_coap(coap_session_get_addr_remote(session));
  int oi = peer.ip[3] - 1;
  if (ri >= 0 && G->error_for_obs == oi && G->error_res == ri) {
    G->error_for_obs = -1;
    coap_pdu_set_code(response, COAP_RESPONSE_CODE_NOT_FOUND);
    coap_bin_const_t tk = coap_pdu_get_token(request);
    G->w->callback("HANDLER error for obs " + std::to_string(oi) + " res " + std::to_string(ri) + " tok " + hex(std::vector<uint8_t>(tk.s, tk.s + tk.length), 8));
    return;
  }
  coap_pdu_set_code(response, COAP_RESPONSE_CODE_CONTENT);
  if (ri >= 0 && G->res[ri].big) {
    std::vector<uint8_t> body = big_body(ri, G->res[ri].state, G->res[ri].big);
    uint8_t *copy = (uint8_t *)malloc(body.size());
    memcpy(copy, body.data(), body.size());
    G->large_given++;
    if (!coap_add_data_large_response(resource, session, request, response, query, COAP_MEDIATYPE_TEXT_PLAIN, -1, 0, body.size(), copy, release_body, copy)) {
      // refused: the release callback has been called by libcoap
      coap_pdu_set_code(response, COAP_RESPONSE_CODE_INTERNAL_ERROR);
    }
    return;
  }
  char b[32];
  int n = snprintf(b, sizeof b, "%d:%u", ri, ri >= 0 ? G->res[ri].state : 0);
  coap_add_data(response, (size_t)n, (const uint8_t *)b);
}

bool serial_gt(uint32_t a, uint32_t b) {  // RFC 7641 3.4 (24 bit)
  return (a > b && a - b < (1u << 23)) || (a < b && b - a > (1u << 23));
}

}  // namespace

void verif_init() {
  coap_startup();
  coap_set_log_level(getenv("C11_DEBUG") ? COAP_LOG_DEBUG : COAP_LOG_EMERG);
}

int verif_case(const uint8_t *tape, size_t tlen, Info *info) {
  Tape t(tape, tlen);
  Case cs;
  G = &cs;
  World w;
  cs.w = &w;
  seed_prng(t.u16());
  coap_context_t *ctx = coap_new_context(nullptr);
  if (!ctx) { G = nullptr; return OUT_OF_DOMAIN; }
  Addr srv = Addr::v4(10, 0, 0, 1, 5683);
  coap_address_t la;
  srv.to_coap(&la);
  coap_new_endpoint(ctx, &la, COAP_PROTO_UDP);
  w.add_context(ctx);
  unsigned nres = (unsigned)t.pick({3, 2, 1}) + 1, nobs = (unsigned)t.pick({3, 3, 2, 1}) + 1;
  // notifications larger than one block: drawn from the END of the tape (backwards), so that the history keeps the front of the tape
  std::vector<uint8_t> rev(tape, tape + tlen);
  std::reverse(rev.begin(), rev.end());
  Tape tb(rev.data(), rev.size());
  bool block_mode = tb.chance(110);
  unsigned blk = 16u << tb.pick({3, 2, 1});   // 16 / 32 / 64 byte blocks
  if (block_mode) {
    coap_context_set_block_mode(ctx, COAP_BLOCK_USE_LIBCOAP);
    // (the block size is asked for by the observers, with a Block2 option in the registration request: libcoap splits a representation that would
    //  fit one message only when the request names a block size; its configured maximum block size merely caps larger ones)
    if (blk > 16) coap_context_set_max_block_size(ctx, blk);
    info->label("block-mode");
  }
  static const char *NAMES[] = {"r0", "r1", "r2"};
  for (unsigned i = 0; i < nres; i++) {
    ResState rs;
    rs.notify_con = t.chance(48);
    rs.r = coap_resource_init(coap_make_str_const(NAMES[i]), rs.notify_con ? COAP_RESOURCE_FLAGS_NOTIFY_CON : 0);
    coap_register_handler(rs.r, COAP_REQUEST_GET, get_handler);
    coap_resource_set_get_observable(rs.r, 1);
    coap_add_resource(ctx, rs.r);
    // the resource has been changed this many times before the history starts (state reachable through coap_resource_notify_observers() only);
    // values next to the 24-bit wrap-around and next to the serial-number half range are what a long-running server meets
    static const unsigned STARTS[] = {2, 0xFFFFF0, 0xFFFFFB, 0x7FFFF8, 0x0000FFF0};
    size_t sp = t.pick({6, 2, 2, 1, 1});
    rs.r->observe = (STARTS[sp] + (sp ? t.range(0, 15) : 0)) & 0xFFFFFF;
    if (block_mode && tb.chance(170)) {
      switch (tb.pick({2, 1, 1, 1, 1, 2})) {
      case 0: rs.big = blk + 1; break;
      case 1: rs.big = 2 * blk - 1; break;
      case 2: rs.big = 2 * blk; break;
      case 3: rs.big = 2 * blk + 1; break;
      case 4: rs.big = 3 * blk; break;
      default: rs.big = tb.range(blk + 1, 5 * blk); break;
      }
    }
    cs.res.push_back(rs);
  }
  // ---- scripted observers ----
  // fetch: what the observer does with a first block that announces more (Block2 M=1): 0 nothing, 1 asks for the following blocks one after the other (NON),
  // 2 the same with Confirmable requests, 3 asks for the next block only; etag: 0 no ETag in those requests, 1 the ETag of the notification, 2 another one
  struct ObsPeer { Peer *p; bool rst_next = false; bool withhold_ack = false; unsigned fetch = 0, etag = 0; uint8_t seq = 0;
                   std::map<std::vector<uint8_t>, std::pair<unsigned, bool>> tok; };   // token -> (resource, query) of the requests this observer sent
  std::vector<ObsPeer> obs(nobs);
  std::vector<Entry> entries;
  std::vector<std::string> history;
  // faults (drawn before the history so that short tapes still have them)
  std::vector<FaultDecision> faults(48);
  bool use_faults = t.pick({1, 1}) == 1;
  for (auto &f : faults) {
    if (!use_faults) break;
    switch (t.pick({10, 2, 1, 1})) {
    case 0: break;
    case 1: f.fate = DROP; break;
    case 2: f.dups = 1; f.dup_delay = t.range(0, 1200); break;
    default: f.delay = t.range(1, 1200); break;
    }
  }
  w.fault = [&](const Datagram &, unsigned idx) { return idx < faults.size() ? faults[idx] : FaultDecision(); };
  uint16_t next_mid = 0x2000;
  for (unsigned i = 0; i < nobs; i++) {
    obs[i].p = w.add_peer(Addr::v4(10, 0, 3, (uint8_t)(i + 1), (uint16_t)(41000 + i)));
    obs[i].fetch = block_mode ? (unsigned)tb.pick({2, 4, 2, 1}) : 0;
    obs[i].etag = (unsigned)tb.pick({5, 1, 1});
    obs[i].p->on_rx = [&, i](World &ww, Peer &p, const Datagram &d) {
      ref::Msg m;
      if (!simh::parse(d.data, &m) || m.code < 64) return;
      const ref::Opt *b2 = simh::find_opt(m, 23);
      if (b2 && m.code == 0x45 && obs[i].fetch && obs[i].tok.count(m.token)) {
        uint32_t bv = simh::opt_uint(b2->val);
        bool first = simh::find_opt(m, 6) != nullptr || (bv >> 4) == 0;
        if ((bv & 8) && (obs[i].fetch != 3 || first)) {   // more blocks follow: ask for the next one
          auto rq = obs[i].tok[m.token];
          ref::Msg g;
          g.type = obs[i].fetch == 2 ? 0 : 1;
          g.code = 1;
          g.mid = next_mid++;
          g.token = {(uint8_t)(0xF0 + i), obs[i].seq++};
          const ref::Opt *et = simh::find_opt(m, 4);
          if (obs[i].etag == 1 && et) g.opts.push_back(ref::Opt{4, et->val});
          if (obs[i].etag == 2) g.opts.push_back(ref::Opt{4, {0x7e, 0x7e, (uint8_t)i}});
          g.opts.push_back(ref::Opt{11, {(uint8_t)'r', (uint8_t)('0' + rq.first)}});
          if (rq.second) g.opts.push_back(ref::Opt{15, {'q', '=', '1'}});
          g.opts.push_back(ref::Opt{23, simh::uint_opt((((bv >> 4) + 1) << 4) | (bv & 7))});
          obs[i].tok[g.token] = rq;
          ww.peer_send(&p, d.src, ref::encode(g, ref::F_UDP));
        }
      }
      bool is_notif = simh::find_opt(m, 6) != nullptr || m.code == 0x84;
      if (obs[i].rst_next && is_notif && (m.type == 0 || m.type == 1)) { obs[i].rst_next = false; ww.peer_send(&p, d.src, simh::rst(m.mid)); return; }
      if (m.type == 0 && !obs[i].withhold_ack) ww.peer_send(&p, d.src, simh::ack(m.mid));
    };
  }
  auto send_get = [&](unsigned o, unsigned r, const std::vector<uint8_t> &token, bool query, int observe, bool con) {
    ref::Msg m;
    m.type = con ? 0 : 1;
    m.code = 1;
    m.mid = next_mid++;
    m.token = token;
    if (observe >= 0) m.opts.push_back(ref::Opt{6, observe ? std::vector<uint8_t>{(uint8_t)observe} : std::vector<uint8_t>{}});
    m.opts.push_back(ref::Opt{11, {(uint8_t)'r', (uint8_t)('0' + r)}});
    if (query) m.opts.push_back(ref::Opt{15, {'q', '=', '1'}});
    if (block_mode && observe == 0) m.opts.push_back(ref::Opt{23, simh::uint_opt(blk == 16 ? 0 : blk == 32 ? 1 : 2)});   // Block2 0/0/<blk>: the observer asks for this block size
    obs[o].tok[token] = {r, query};
    w.peer_send(obs[o].p, srv, ref::encode(m, ref::F_UDP));
  };
  // ---- history ----
  unsigned nops = t.range(3, 30);
  unsigned changes_after_reg = 0;
  bool dereg_path = false;
  unsigned regs = 0;
  for (unsigned k = 0; k < nops && !w.hit_cap; k++) {
    unsigned o = t.range(0, nobs - 1), r = t.range(0, nres - 1);
    char hb[96];
    size_t op = k == 0 ? 0 : t.pick({5, 6, 4, 2, 2, 2, 1, 1, 1, 1, 3, 1});
    if (op == 11) {  // session loss: the application tells libcoap that the observer's session has failed (as it does itself after a socket error)
      coap_address_t ra;
      obs[o].p->addr.to_coap(&ra);
      coap_session_t *sess = coap_session_get_by_peer(ctx, &ra, 1);
      if (sess) {
        w.note("LOST o" + std::to_string(o));
        coap_session_disconnected(sess, COAP_NACK_NOT_DELIVERABLE);
      }
      snprintf(hb, sizeof hb, "session-loss(o%u)%s", o, sess ? "" : "[no session]");
      history.push_back(hb);
      continue;
    }
    if (op == 10) {  // composite: a series of changes with an I/O step after each one
      unsigned n = t.range(2, 14), gap = t.range(0, 30);
      for (unsigned i = 0; i < n && !cs.res[r].deleted; i++) {
        cs.res[r].state++;
        coap_resource_notify_observers(cs.res[r].r, nullptr);
        w.note("CHANGE r" + std::to_string(r) + " state=" + std::to_string(cs.res[r].state));
        if (regs) changes_after_reg++;
        if (w.run(w.now + gap, 4000)) w.note("QUIET");
      }
      snprintf(hb, sizeof hb, "series(r%u x%u every %ums)", r, n, gap);
      history.push_back(hb);
      continue;
    }
    if (op == 9) {  // composite: a Confirmable notification that nobody acknowledges
      bool was = obs[o].withhold_ack;
      obs[o].withhold_ack = true;
      if (!cs.res[r].deleted) {
        cs.res[r].state++;
        coap_resource_notify_observers(cs.res[r].r, nullptr);
        w.note("CHANGE r" + std::to_string(r) + " state=" + std::to_string(cs.res[r].state));
        if (regs) changes_after_reg++;
      }
      uint32_t ms = t.range(95000, 130000);
      if (w.run(w.now + ms, 30000)) w.note("QUIET");
      obs[o].withhold_ack = was;
      snprintf(hb, sizeof hb, "silent-observer(o%u,r%u,%ums)", o, r, ms);
      history.push_back(hb);
      continue;
    }
    switch (op) {
    case 0: {  // register
      bool query = t.chance(48), con = t.pick({1, 2}) != 0;
      std::vector<uint8_t> token = {(uint8_t)(0x10 * (o + 1) + r), (uint8_t)(t.range(0, 2) + (query ? 0x80 : 0))};
      // the zero-length token is a token like any other: one of the variants of (resource 0, no query) uses it
      if (r == 0 && !query && token[1] == 2) token.clear();
      if (token.empty()) info->label("registration-with-empty-token");
      send_get(o, r, token, query, 0, con);
      regs++;
      snprintf(hb, sizeof hb, "register(o%u,r%u,tok=%s,%s,%s)", o, r, hex(token, 4).c_str(), query ? "q" : "-", con ? "CON" : "NON");
      break;
    }
    case 1: {  // change (burst)
      unsigned n = (unsigned)t.pick({4, 2, 1}) + 1;
      if (!cs.res[r].deleted) {
        for (unsigned i = 0; i < n; i++) { cs.res[r].state++; coap_resource_notify_observers(cs.res[r].r, nullptr); }
        w.note("CHANGE r" + std::to_string(r) + " state=" + std::to_string(cs.res[r].state));
        if (regs) changes_after_reg++;
      }
      snprintf(hb, sizeof hb, "change(r%u x%u)", r, n);
      break;
    }
    case 2: { uint32_t ms = t.range(0, 50); if (w.run(w.now + ms, 4000)) w.note("QUIET"); snprintf(hb, sizeof hb, "io(%ums)", ms); break; }
    case 3: { size_t cls = t.pick({3, 2, 1}); uint32_t ms = cls == 0 ? t.range(1000, 60000) : cls == 1 ? t.range(60000, 130000) : t.range(300000, 400000); if (w.run(w.now + ms, 30000)) w.note("QUIET"); snprintf(hb, sizeof hb, "advance(%ums)", ms); break; }
    case 4: {  // cancel with Observe=1
      bool query = t.chance(48);
      std::vector<uint8_t> token = {(uint8_t)(0x10 * (o + 1) + r), (uint8_t)(t.range(0, 2) + (query ? 0x80 : 0))};
      // the zero-length token is a token like any other: one of the variants of (resource 0, no query) uses it
      if (r == 0 && !query && token[1] == 2) token.clear();
      send_get(o, r, token, query, 1, t.pick({1, 3}) != 0);
      snprintf(hb, sizeof hb, "cancel(o%u,r%u,tok=%s)", o, r, hex(token, 4).c_str());
      break;
    }
    case 5: obs[o].rst_next = true; snprintf(hb, sizeof hb, "rst-next(o%u)", o); break;
    case 6: obs[o].withhold_ack = !obs[o].withhold_ack; snprintf(hb, sizeof hb, "withhold-ack(o%u)=%d", o, obs[o].withhold_ack); break;
    case 7: cs.error_for_obs = (int)o; cs.error_res = (int)r; snprintf(hb, sizeof hb, "handler-error(o%u,r%u)", o, r); break;
    default:
      if (!cs.res[r].deleted && nres > 1) {
        cs.res[r].deleted = true;
        w.note("DELETE r" + std::to_string(r));
        coap_delete_resource(ctx, cs.res[r].r);
        cs.res[r].r = nullptr;
      }
      snprintf(hb, sizeof hb, "delete(r%u)", r);
      break;
    }
    history.push_back(hb);
    // registrations / cancellations take effect when the request is delivered: processed below from the trace
  }
  // let everything settle: ACKs flowing again, no more RSTs
  for (auto &op : obs) { op.withhold_ack = false; op.rst_next = false; }
  bool quiet = w.run(w.now + 1000000, 100000);

  // ---- oracle: replay the trace against the entry model ----
  int verdict = HELD;
  // pass 1: Confirmable notifications that were given up (all 1 + MAX_RETRANSMIT transmissions without an ACK/RST reaching the server in time)
  struct ConTx { std::vector<uint64_t> tx; uint64_t answered = UINT64_MAX; };
  std::map<std::pair<int, uint16_t>, ConTx> con;
  for (auto &e : w.trace) {
    ref::Msg m;
    if ((e.kind != EV_SEND && e.kind != EV_READ) || !simh::parse(e.data, &m)) continue;
    if (e.kind == EV_SEND && e.from_lib && m.type == 0 && m.code >= 64) con[{e.dst.ip[3] - 1, m.mid}].tx.push_back(e.t);
    if (e.kind == EV_READ && e.dst == srv && m.code == 0 && (m.type == 2 || m.type == 3)) {
      auto it = con.find({e.src.ip[3] - 1, m.mid});
      if (it != con.end() && it->second.answered == UINT64_MAX) it->second.answered = e.t;
    }
  }
  std::multimap<uint64_t, std::pair<int, uint16_t>> giveups;  // time -> (observer, mid)
  for (auto &c : con) {
    auto &tx = c.second.tx;
    if (tx.size() != 5) continue;
    uint64_t g = tx[4] + 2 * (tx[4] - tx[3]);
    if (c.second.answered <= g) continue;
    giveups.insert({g, c.first});
  }
  struct Notif { uint64_t t; size_t idx; uint16_t mid; uint8_t type; uint32_t observe; bool has_observe; uint8_t code; unsigned state; bool reg_response; };
  std::map<size_t, std::vector<Notif>> sent;             // entry -> messages sent for it, in sending order
  std::map<std::pair<int, uint16_t>, std::vector<uint8_t>> con_bytes;   // CON notifications already seen (retransmission detection)
  std::map<std::pair<int, uint16_t>, size_t> con_entry;
  std::map<std::pair<int, uint16_t>, unsigned> con_gen;
  std::map<std::pair<int, uint16_t>, std::vector<uint8_t>> con_token;
  unsigned con_notifs = 0;
  std::set<std::pair<int, uint16_t>> req_mids;           // (observer, mid) of delivered requests, for recognising NON registration responses
  std::vector<unsigned> cur_state(nres, 0);
  std::vector<bool> deleted(nres, false);
  std::map<std::tuple<int, int, std::vector<uint8_t>>, std::set<int>> etag_state;   // (observer, resource, ETag) -> states that explain every block seen with it
  std::map<std::tuple<int, int, std::vector<uint8_t>>, std::set<uint32_t>> etag_blocks;
  std::map<std::tuple<int, int, bool>, std::vector<uint8_t>> last_notif_etag;        // (observer, resource, query) -> ETag of the latest notification / registration response
  unsigned big_followups = 0;
  auto ident = [&](const Entry &en) {
    char id[96];
    snprintf(id, sizeof id, "observer %d resource r%d%s token %s", en.obs, en.res, en.query ? "?q=1" : "", hex(en.token, 4).c_str());
    return std::string(id);
  };
  auto set_gone = [&](Entry &en, size_t idx, uint64_t tm, const char *why) { en.st = GONE; en.dereg_idx = idx; en.dereg_t = tm; en.dereg_why = why; en.allow_error = false; dereg_path = true; };
  auto quiet_check = [&](size_t idx) -> bool {
    for (size_t i = 0; i < entries.size(); i++) {
      Entry &en = entries[i];
      if (en.st != LIVE || deleted[en.res]) continue;
      auto &v = sent[i];
      if (v.empty()) { info->fail("%s: registration was delivered but nothing was ever sent in return (trace index %zu)", ident(en).c_str(), idx); return false; }
      if (v.back().state != cur_state[en.res]) {
        info->fail("%s: network quiet at trace index %zu, last notification carries state %u but the resource is at state %u", ident(en).c_str(), idx, v.back().state, cur_state[en.res]);
        return false;
      }
    }
    return true;
  };
#define FAIL_IF(c) do { if (c) { verdict = VIOLATION; goto done; } } while (0)
  for (size_t ti = 0; ti < w.trace.size(); ti++) {
    auto &e = w.trace[ti];
    ref::Msg m;
    // give-ups that happened strictly before this event
    while (!giveups.empty() && giveups.begin()->first + 5 < e.t) {
      auto g = *giveups.begin();
      giveups.erase(giveups.begin());
      auto it = con_entry.find(g.second);
      if (it != con_entry.end() && entries[it->second].st != GONE && entries[it->second].token == con_token[g.second]) {
        // libcoap matches the failed notification to the observer by token
        if (entries[it->second].gen == con_gen[g.second]) set_gone(entries[it->second], ti, g.first + 5, "failed Confirmable notification");
        else entries[it->second].st = UNSURE;  // refreshed in between
        info->label("con-notification-failed");
      }
    }
    if (e.kind == EV_NOTE) {
      if (e.note.compare(0, 6, "DELETE") == 0) {
        int r = e.note[8] - '0';
        deleted[r] = true;
        for (auto &en : entries) if (en.res == r && en.st != GONE) { set_gone(en, ti, e.t, "resource deleted"); en.allow_error = true; }
      } else if (e.note.compare(0, 6, "LOST o") == 0) {
        int o = e.note[6] - '0';
        for (auto &en : entries) if (en.obs == o && en.st != GONE) set_gone(en, ti, e.t, "session lost");
        info->label("session-loss-with-observations");
      } else if (e.note.compare(0, 6, "CHANGE") == 0) {
        int r = 0; unsigned st = 0;
        sscanf(e.note.c_str(), "CHANGE r%d state=%u", &r, &st);
        cur_state[r] = st;
      } else if (e.note == "QUIET") {
        if (giveups.empty() || giveups.begin()->first > e.t + 5) FAIL_IF(!quiet_check(ti));
      }
      continue;
    }
    if (e.kind == EV_CALLBACK && e.note.compare(0, 13, "HANDLER error") == 0) {
      int o = 0, r = 0;
      char tk[32] = "";
      sscanf(e.note.c_str(), "HANDLER error for obs %d res %d tok %31s", &o, &r, tk);
      // the handler served the request (or the stored request of the observation) with this token
      for (auto &en : entries) if (en.st != GONE && en.obs == o && en.res == r && hex(en.token, 8) == tk) { set_gone(en, ti, e.t, "error response"); en.allow_error = true; }
      continue;
    }
    if (e.kind == EV_SEND && e.from_lib && !simh::parse(e.data, &m)) {
      ref::DecodeResult dr = ref::decode(e.data.data(), e.data.size(), ref::F_UDP, false);
      info->fail("the server sent a datagram that is not a well-formed CoAP message (%s): %s", dr.why, hex(e.data, 40).c_str());
      FAIL_IF(1);
    }
    if ((e.kind != EV_READ && e.kind != EV_SEND) || !simh::parse(e.data, &m)) continue;
    if (e.kind == EV_READ && e.dst == srv) {
      int o = e.src.ip[3] - 1;
      if (ref::is_request(m.code)) {
        req_mids.insert({o, m.mid});
        const ref::Opt *ob = simh::find_opt(m, 6), *up = simh::find_opt(m, 11);
        if (!ob || !up || up->val.size() != 2) continue;
        int r = up->val[1] - '0';
        bool q = simh::find_opt(m, 15) != nullptr;
        uint32_t action = simh::opt_uint(ob->val);
        if ((size_t)r >= nres || deleted[r]) continue;
        int ex = -1;
        for (size_t i = 0; i < entries.size(); i++) if (entries[i].obs == o && entries[i].res == r && entries[i].query == q) ex = (int)i;
        if (action == 0) {
          if (ex < 0) { Entry en; en.obs = o; en.res = r; en.query = q; en.token = m.token; entries.push_back(en); ex = (int)entries.size() - 1; entries[ex].st = GONE; }
          Entry &en = entries[ex];
          bool changes = en.st != LIVE || en.token != m.token;
          if (en.token != m.token) { en.old_tokens.insert(en.token); en.old_tokens.erase(m.token); en.token = m.token; }
          // a network duplicate of an earlier request may or may not be processed again
          if (changes && e.dup) en.st = UNSURE; else en.st = LIVE;
          en.since = e.t;
          en.gen++;
          en.allow_error = false;
          en.non_run = 0;
        } else if (action == 1 && ex >= 0 && entries[ex].st != GONE) {
          Entry &en = entries[ex];
          // RFC 7641 3.6: deregistration is matched by token; libcoap also accepts another token for the same request
          if (en.token == m.token && !e.dup) set_gone(en, ti, e.t, "Observe=1");
          else { en.st = UNSURE; info->label("cancel-unsure"); }
        }
      } else if (m.code == 0 && m.type == 3) {
        std::vector<size_t> latest, older;
        for (size_t i = 0; i < entries.size(); i++) {
          if (entries[i].obs != o || entries[i].st == GONE) continue;
          auto &v = sent[i];
          // an RST that answers the (Non-confirmable) response to the registration request itself is left undecided: the statement speaks of
          // "Reset in reply to a notification", and libcoap tracks message ids of notifications only
          for (size_t k = v.size(); k-- > 0;) if (v[k].mid == m.mid) { (k + 1 == v.size() && !v[k].reg_response ? latest : older).push_back(i); break; }
        }
        if (latest.size() == 1 && older.empty()) set_gone(entries[latest[0]], ti, e.t, "RST for the latest notification");
        else {
          for (size_t i : latest) entries[i].st = UNSURE;
          for (size_t i : older) { entries[i].st = UNSURE; info->label("rst-for-older-notification"); }
        }
      }
      continue;
    }
    if (e.kind == EV_SEND && e.from_lib && m.code >= 64 && m.type <= 2) {
      int o = e.dst.ip[3] - 1;
      if (o < 0 || o >= (int)nobs) continue;
      const ref::Opt *ob = simh::find_opt(m, 6);
      auto key = std::make_pair(o, m.mid);
      // ---- representations larger than one block: every block on the wire is a block of the representation in one state, the blocks that share an
      //      ETag belong to the same state, Block2 describes the piece exactly (number, size, more flag) ----
      if (const ref::Opt *b2 = simh::find_opt(m, 23)) {
        auto tk = obs[o].tok.find(m.token);
        if (m.code == 0x45 && tk != obs[o].tok.end() && cs.res[tk->second.first].big) {
          int r = (int)tk->second.first;
          size_t L = cs.res[r].big;
          uint32_t bv = simh::opt_uint(b2->val), num = bv >> 4, szx = bv & 7;
          size_t size = (size_t)16 << szx, off = (size_t)num * size;
          bool more = bv & 8;
          if (szx == 7 || size > blk) { info->fail("observer %d r%d: Block2 %u/%d/%zu although the server's maximum block size is %u", o, r, num, more, size, blk); FAIL_IF(1); }
          if (off >= L || m.payload.size() != std::min(size, L - off) || more != (off + m.payload.size() < L)) {
            info->fail("observer %d r%d: Block2 %u/%d/%zu with %zu payload bytes does not describe a piece of the %zu byte representation", o, r, num, more, size, m.payload.size(), L);
            FAIL_IF(1);
          }
          // the states whose representation has exactly these bytes at this offset (a short last block may fit several states)
          std::set<int> fits;
          for (unsigned s2 = 0; s2 <= cur_state[r]; s2++) {
            std::vector<uint8_t> b = big_body(r, s2, L);
            if (std::equal(m.payload.begin(), m.payload.end(), b.begin() + (long)off)) fits.insert((int)s2);
          }
          if (fits.empty()) { info->fail("observer %d r%d: block %u (%zu bytes at offset %zu) is not a piece of the representation in any state the resource has had (now %u)", o, r, num, m.payload.size(), off, cur_state[r]); FAIL_IF(1); }
          if (const ref::Opt *et = simh::find_opt(m, 4)) {
            auto ek = std::make_tuple(o, r, et->val);
            auto it = etag_state.find(ek);
            if (it == etag_state.end()) etag_state[ek] = fits;
            else {
              std::set<int> both;
              for (int x : it->second) if (fits.count(x)) both.insert(x);
              if (both.empty()) {
                info->fail("observer %d r%d: block %u with ETag %s is a piece of state %d, the earlier blocks with the same ETag were pieces of state %d: no single state explains them (torn representation)", o, r, num, hex(et->val, 8).c_str(), *fits.begin(), *it->second.begin());
                FAIL_IF(1);
              }
              it->second = both;
            }
            etag_blocks[ek].insert(num);
            if (ob && !(m.type == 0 && con_bytes.count(key) && con_bytes[key] == e.data)) last_notif_etag[{o, r, tk->second.second}] = et->val;   // (not for a retransmission)
          } else info->label("block-without-etag");   // served by the handler itself (no transfer state at the server): nothing ties it to other blocks
          info->label(num ? "follow-up-block-served" : (ob ? "notification-with-block2" : "first-block-without-observe"));
          if (num) big_followups++;
        }
      }
      if (m.type == 0) {
        auto it = con_bytes.find(key);
        if (it != con_bytes.end() && it->second == e.data) continue;  // retransmission
      }
      bool reg_response = m.type == 2 || (m.type == 1 && req_mids.count(key));
      int ei = -1, old = -1;
      for (size_t i = 0; i < entries.size(); i++) if (entries[i].obs == o) {
        if (entries[i].token == m.token) ei = (int)i;
        else if (entries[i].old_tokens.count(m.token)) old = (int)i;
      }
      if (ei < 0 && old >= 0 && !reg_response) {
        info->fail("%s: notification (mid %u) still carries the replaced token %s", ident(entries[old]).c_str(), m.mid, hex(m.token, 4).c_str());
        FAIL_IF(1);
      }
      if (ei < 0) continue;  // response to a request that is not a registration
      Entry &en = entries[ei];
      Notif n{e.t, ti, m.mid, m.type, ob ? simh::opt_uint(ob->val) : 0, ob != nullptr, m.code, 0, reg_response};
      sscanf(std::string(m.payload.begin(), m.payload.end()).c_str(), "%*d:%u", &n.state);
      if (m.type == 0) { con_bytes[key] = e.data; con_entry[key] = (size_t)ei; con_gen[key] = en.gen; con_token[key] = en.token; }
      auto &v = sent[ei];
      if (ob && ob->val.size() > 3) { info->fail("%s: Observe option of %zu bytes (value %u) exceeds 24 bits", ident(en).c_str(), ob->val.size(), n.observe); FAIL_IF(1); }
      if (reg_response) {
        // response to a (re-)registration / cancellation request: Observe (when present) must not run backwards
        if (n.has_observe && (m.code >> 5) == 2)
          for (auto it = v.rbegin(); it != v.rend(); ++it) if (it->has_observe && (it->code >> 5) == 2) {
            if (n.observe != it->observe && !serial_gt(n.observe, it->observe)) { info->fail("%s: registration response carries Observe %u after %u", ident(en).c_str(), n.observe, it->observe); FAIL_IF(1); }
            break;
          }
        if (n.has_observe) v.push_back(n);
        else if (en.st == LIVE && (m.code >> 5) == 2 && en.since == e.t && !deleted[en.res]) {
          // registration accepted by the model but the response has no Observe option: the server declined the observation
          info->fail("%s: registration request answered %u.%02u without Observe option", ident(en).c_str(), m.code >> 5, m.code & 31); FAIL_IF(1);
        }
        continue;
      }
      if (en.st == GONE) {
        if (en.allow_error && (m.code >> 5) >= 4 && !ob) { en.allow_error = false; v.push_back(n); continue; }  // the one error response that ends the observation
        info->fail("%s: notification (%s %u.%02u mid %u, Observe %u) first transmitted at %llu after deregistration (%s) at %llu", ident(en).c_str(), simh::type_name(m.type).c_str(),
                   m.code >> 5, m.code & 31, m.mid, n.observe, (unsigned long long)e.t, en.dereg_why, (unsigned long long)en.dereg_t);
        FAIL_IF(1);
      }
      if ((m.code >> 5) >= 4) {
        // error "notification": ends the observation (allowed once when the handler failed)
        if (!en.allow_error) { info->fail("%s: unexpected error notification %u.%02u", ident(en).c_str(), m.code >> 5, m.code & 31); FAIL_IF(1); }
        set_gone(en, ti, e.t, "error response");
        v.push_back(n);
        continue;
      }
      if (!n.has_observe) { info->fail("%s: notification mid %u without Observe option", ident(en).c_str(), m.mid); FAIL_IF(1); }
      for (auto it = v.rbegin(); it != v.rend(); ++it) if (it->has_observe && (it->code >> 5) == 2) {
        // against an earlier change notification: strictly greater.  Against the response to a (re-)registration request, which repeats the resource's
        // current sequence number: not smaller, and an equal number must mean the same resource state.
        if (it->reg_response && n.observe == it->observe && n.state == it->state) { info->label("notification-repeats-registration-response-number"); continue; }
        if (!serial_gt(n.observe, it->observe)) { info->fail("%s: Observe value %u (state %u) follows %u (state %u%s): not strictly greater", ident(en).c_str(), n.observe, n.state, it->observe, it->state, it->reg_response ? ", registration response" : ""); FAIL_IF(1); }
      }
      if (!v.empty() && v.back().has_observe && n.observe < v.back().observe) info->label("observe-wrapped");
      if (en.st == UNSURE) en.st = LIVE;  // it is being served
      v.push_back(n);
      if (m.type == 1) en.non_run++; else en.non_run = 0;
      if (en.non_run > 5) { info->fail("%s: %u consecutive Non-confirmable notifications", ident(en).c_str(), en.non_run); FAIL_IF(1); }
      if (m.type == 0) con_notifs++;
    }
  }
  if (quiet && giveups.empty()) FAIL_IF(!quiet_check(w.trace.size()));
  // an observer that asks for the following blocks one after the other, on a network that loses nothing, ends up with the complete latest representation
  if (quiet && giveups.empty() && !use_faults && !w.hit_cap)
    for (auto &en : entries) {
      if (en.st != LIVE || deleted[en.res] || !cs.res[en.res].big) continue;
      const ObsPeer &op = obs[en.obs];
      if ((op.fetch != 1 && op.fetch != 2) || op.etag != 0) continue;
      auto le = last_notif_etag.find({en.obs, en.res, en.query});
      if (le == last_notif_etag.end()) continue;
      auto ek = std::make_tuple(en.obs, en.res, le->second);
      size_t size = 0, L = cs.res[en.res].big;
      (void)size;
      uint32_t need = (uint32_t)((L + blk - 1) / blk);
      if (etag_state[ek].count((int)cur_state[en.res]) && etag_blocks[ek].size() < need) {
        info->fail("%s: loss-free network, the observer asked for every following block, but only %zu of the %u blocks of the latest representation (ETag %s) were served", ident(en).c_str(), etag_blocks[ek].size(), need, hex(le->second, 8).c_str());
        FAIL_IF(1);
      }
      info->label("complete-large-representation-fetched");
    }
done:
  for (auto &e : w.trace) if (e.kind == EV_NOTE && e.note.find("CHANGE") == 0) { (void)e; }
  info->nontrivial = changes_after_reg >= 2 && (dereg_path || con_notifs > 0);
  if (con_notifs) info->label("con-notification");
  if (dereg_path) info->label("deregistration-path");
  if (!quiet || w.hit_cap) info->inconclusive = true;
  {
    std::string h;
    for (auto &s : history) { h += s; h += " "; }
    info->rs(h);
    info->rs(";");
    info->rs(simh::render_trace(w, 50));
    info->mix(h.data(), h.size());
    for (auto &e : w.trace) if (e.kind == EV_SEND || e.kind == EV_DROP) { info->mixu(e.t); info->mix(e.data.data(), e.data.size()); }
  }
  w.remove_context(ctx);
  coap_free_context(ctx);
  if (verdict == HELD && cs.large_given != cs.large_released) {
    info->fail("%u representations were handed to coap_add_data_large_response(), the release callback ran %u times by the time the context was freed", cs.large_given, cs.large_released);
    verdict = VIOLATION;
  }
  if (big_followups) info->label("large-notification-followed-up");
  G = nullptr;
  return verdict;
}
