// C18 — any single allocation failure is survived: clean error, no leak, endpoint still works.
// Catalogue of scenarios on the simulated network; the k-th request to libcoap's typed allocator (ld --wrap of
// coap_malloc_type / coap_realloc_type / coap_free_type, sim/alloc.cc) returns NULL; sanitizers + allocation table + canary exchange.
#include "../sim/helpers.h"
#include <sanitizer/common_interface_defs.h>
#include <sanitizer/lsan_interface.h>
#include <sys/wait.h>
#include <unistd.h>
using namespace verif;
using namespace sim;

const char *verif_property_id = "C18";
const char *verif_rule =
    "tape -> scenario from the catalogue {context + endpoint + resources set-up and tear-down; GET request/response (CON, NON); PUT with payload; Block1 upload; Block2 download; "
    "observe register + notifications + cancel + resource deletion; async separate response; OSCORE exchange; URI / optlist helpers; .well-known/core with attributes; TCP session with "
    "CSM and request; cache key / cache entry; context created with its listening address; Block1 upload by a scripted peer that sends no Size1; TCP request of 300..900 bytes (the PDU grows while it is received)}, scenario parameters (sizes, token lengths, option counts) and the index k (and optionally a second index k2 > k) of the request to "
    "coap_malloc_type()/coap_realloc_type() that returns NULL; the enumeration tier walks every k of every scenario with default parameters. Client and server are both libcoap, so the "
    "failing allocation hits whichever side performs it. Oracle: no sanitizer report, failed assertion or abort and the case returns; the harness follows the documented ownership rules "
    "(a PDU given to coap_send() is never touched again, other objects are released by their owner); after all contexts are freed the allocation table is empty, nothing was released "
    "twice and LeakSanitizer is silent; then, with memory available, a fresh GET exchange between new contexts succeeds. "
    "Non-trivial = the failed request lies beyond the allocations of context/endpoint creation; distinct = by (scenario, call site of the failed request)";
size_t verif_max_tape = 64;

namespace {
typedef std::vector<uint8_t> Bytes;

struct Fx {   // one client and one server context in one world
  World w;
  coap_context_t *cctx = nullptr, *sctx = nullptr;
  coap_session_t *session = nullptr;
  unsigned responses = 0, nacks = 0, srv_calls = 0;
  unsigned obs_state = 0;
  coap_resource_t *obs_res = nullptr;
  Bytes big;
  bool app_block1_ok = false;
  bool setup_ok = false;   // setup() ran to its end: both contexts, the endpoint, all resources and the client session exist
};
Fx *F = nullptr;

void h_get(coap_resource_t *, coap_session_t *, const coap_pdu_t *, const coap_string_t *, coap_pdu_t *response) {
  F->srv_calls++;
  coap_pdu_set_code(response, COAP_RESPONSE_CODE_CONTENT);
  coap_add_data(response, 5, (const uint8_t *)"hello");
}
void h_put(coap_resource_t *, coap_session_t *, const coap_pdu_t *request, const coap_string_t *, coap_pdu_t *response) {
  F->srv_calls++;
  size_t len = 0, off = 0, total = 0;
  const uint8_t *d = nullptr;
  if (coap_get_data_large(request, &len, &d, &off, &total) && d) { volatile uint8_t a = 0; for (size_t i = 0; i < len; i++) a ^= d[i]; (void)a; }
  coap_pdu_set_code(response, COAP_RESPONSE_CODE_CHANGED);
}
void h_big(coap_resource_t *resource, coap_session_t *session, const coap_pdu_t *request, const coap_string_t *query, coap_pdu_t *response) {
  F->srv_calls++;
  coap_pdu_set_code(response, COAP_RESPONSE_CODE_CONTENT);
  // on failure the response simply goes out without body (or as the error libcoap chose)
  coap_add_data_large_response(resource, session, request, response, query, COAP_MEDIATYPE_TEXT_PLAIN, -1, 0, F->big.size(), F->big.data(), nullptr, nullptr);
}
void h_obs(coap_resource_t *, coap_session_t *, const coap_pdu_t *, const coap_string_t *, coap_pdu_t *response) {
  F->srv_calls++;
  coap_pdu_set_code(response, COAP_RESPONSE_CODE_CONTENT);
  char b[16];
  int n = snprintf(b, sizeof b, "s%u", F->obs_state);
  coap_add_data(response, (size_t)n, (const uint8_t *)b);
}
void h_sep(coap_resource_t *, coap_session_t *session, const coap_pdu_t *request, const coap_string_t *, coap_pdu_t *response) {
  F->srv_calls++;
  coap_async_t *async = coap_find_async(session, coap_pdu_get_token(request));
  if (!async) {
    async = coap_register_async(session, request, 500);
    if (async) return;
    coap_pdu_set_code(response, COAP_RESPONSE_CODE_SERVICE_UNAVAILABLE);
    return;
  }
  coap_pdu_set_code(response, COAP_RESPONSE_CODE_CONTENT);
  coap_add_data(response, 4, (const uint8_t *)"late");
}
coap_response_t h_resp(coap_session_t *, const coap_pdu_t *, const coap_pdu_t *rcvd, const coap_mid_t) {
  F->responses++;
  size_t len = 0, off = 0, total = 0;
  const uint8_t *d = nullptr;
  if (coap_get_data_large(rcvd, &len, &d, &off, &total) && d) { volatile uint8_t a = 0; for (size_t i = 0; i < len; i++) a ^= d[i]; (void)a; }
  return COAP_RESPONSE_OK;
}
void h_nack(coap_session_t *, const coap_pdu_t *, const coap_nack_reason_t, const coap_mid_t) { F->nacks++; }

const Addr SRV = Addr::v4(10, 0, 0, 1, 5683);

// set-up shared by most scenarios; every step may fail (allocation failure): returns false then, the caller tears down what exists
bool setup(Fx &f, coap_proto_t proto, uint32_t block_mode, const std::string *oscore_srv, const std::string *oscore_cli) {
  f.sctx = coap_new_context(nullptr);
  if (!f.sctx) return false;
  f.w.add_context(f.sctx);
  coap_context_set_block_mode(f.sctx, block_mode);
  coap_address_t la;
  SRV.to_coap(&la);
  if (!coap_new_endpoint(f.sctx, &la, proto)) return false;
  if (oscore_srv) {
    coap_str_const_t mem = {oscore_srv->size(), (const uint8_t *)oscore_srv->data()};
    coap_oscore_conf_t *conf = coap_new_oscore_conf(mem, nullptr, nullptr, 0);
    if (!conf) return false;
    if (!coap_context_oscore_server(f.sctx, conf)) return false;   // consumes conf also on failure
  }
  struct { const char *name; coap_method_handler_t h; coap_request_t m; } RES[] = {{"r", h_get, COAP_REQUEST_GET}, {"p", h_put, COAP_REQUEST_PUT}, {"big", h_big, COAP_REQUEST_GET}, {"obs", h_obs, COAP_REQUEST_GET}, {"sep", h_sep, COAP_REQUEST_GET}};
  for (auto &r : RES) {
    coap_resource_t *res = coap_resource_init(coap_make_str_const(r.name), 0);
    if (!res) return false;
    coap_register_handler(res, r.m, r.h);
    if (r.h == h_obs) { coap_resource_set_get_observable(res, 1); f.obs_res = res; }
    coap_add_resource(f.sctx, res);
  }
  f.cctx = coap_new_context(nullptr);
  if (!f.cctx) return false;
  f.w.add_context(f.cctx);
  coap_context_set_block_mode(f.cctx, block_mode);
  coap_register_response_handler(f.cctx, h_resp);
  coap_register_nack_handler(f.cctx, h_nack);
  coap_address_t dst;
  SRV.to_coap(&dst);
  if (oscore_cli) {
    coap_str_const_t mem = {oscore_cli->size(), (const uint8_t *)oscore_cli->data()};
    coap_oscore_conf_t *conf = coap_new_oscore_conf(mem, nullptr, nullptr, 0);
    if (!conf) return false;
    f.session = coap_new_client_session_oscore(f.cctx, nullptr, &dst, proto, conf);
  } else f.session = coap_new_client_session(f.cctx, nullptr, &dst, proto);
  f.setup_ok = f.session != nullptr;
  return f.session != nullptr;
}

void teardown(Fx &f) {
  if (f.session) coap_session_release(f.session);
  f.session = nullptr;
  if (f.cctx) { f.w.remove_context(f.cctx); coap_free_context(f.cctx); f.cctx = nullptr; }
  if (f.sctx) { f.w.remove_context(f.sctx); coap_free_context(f.sctx); f.sctx = nullptr; }
}

// build and send a request; follows the ownership rules: after coap_send() the PDU is gone whatever the result
bool request(Fx &f, coap_pdu_type_t type, coap_pdu_code_t code, const char *path, const Bytes &token, int observe, const Bytes *payload, bool large) {
  coap_pdu_t *pdu = coap_new_pdu(type, code, f.session);
  if (!pdu) return false;
  if (!coap_add_token(pdu, token.size(), token.empty() ? (const uint8_t *)"" : token.data())) { coap_delete_pdu(pdu); return false; }
  uint8_t ob = (uint8_t)observe;
  if (observe >= 0 && !coap_add_option(pdu, COAP_OPTION_OBSERVE, observe ? 1 : 0, &ob)) { coap_delete_pdu(pdu); return false; }
  if (!coap_add_option(pdu, COAP_OPTION_URI_PATH, strlen(path), (const uint8_t *)path)) { coap_delete_pdu(pdu); return false; }
  if (payload) {
    if (large) { if (!coap_add_data_large_request(f.session, pdu, payload->size(), payload->data(), nullptr, nullptr)) { coap_delete_pdu(pdu); return false; } }
    else if (!coap_add_data(pdu, payload->size(), payload->data())) { coap_delete_pdu(pdu); return false; }
  }
  return coap_send(f.session, pdu) != COAP_INVALID_MID;
}

const char *SC_NAMES[] = {"setup-teardown", "get-con", "get-non", "put-payload", "block1-upload", "block2-download", "observe", "async", "oscore", "uri-helpers", "well-known-core", "tcp", "cache", "context-with-listen-address", "block1-from-peer-without-size1", "tcp-large-messages"};
const unsigned NSC = sizeof SC_NAMES / sizeof SC_NAMES[0];

std::string oscore_conf(bool server) {
  std::string s = "master_secret,hex,\"0102030405060708090a0b0c0d0e0f10\"\nmaster_salt,hex,\"9e7ca92223786340\"\n";
  s += server ? "sender_id,hex,\"01\"\nrecipient_id,hex,\"02\"\n" : "sender_id,hex,\"02\"\nrecipient_id,hex,\"01\"\n";
  s += "rfc8613_b_1_2,bool,false\n";
  return s;
}

// runs one scenario; the allocation failure is armed by the caller.  Nothing in here may crash because an API returned failure.
void run_scenario(unsigned sc, Tape &t, Fx &f) {
  uint32_t bm = COAP_BLOCK_USE_LIBCOAP | (t.flag() ? COAP_BLOCK_SINGLE_BODY : 0);
  Bytes token = t.blob(t.range(0, 8));
  switch (sc) {
  case 0:
    setup(f, COAP_PROTO_UDP, bm, nullptr, nullptr);
    break;
  case 1: case 2:
    if (!setup(f, COAP_PROTO_UDP, bm, nullptr, nullptr)) break;
    request(f, sc == 1 ? COAP_MESSAGE_CON : COAP_MESSAGE_NON, COAP_REQUEST_CODE_GET, "r", token, -1, nullptr, false);
    f.w.run(f.w.now + 200000, 40000);
    break;
  case 3: {
    if (!setup(f, COAP_PROTO_UDP, bm, nullptr, nullptr)) break;
    Bytes pl = t.blob(t.range(1, 200));
    request(f, t.flag() ? COAP_MESSAGE_CON : COAP_MESSAGE_NON, COAP_REQUEST_CODE_PUT, "p", token, -1, &pl, false);
    f.w.run(f.w.now + 200000, 40000);
    break;
  }
  case 4: {
    if (!setup(f, COAP_PROTO_UDP, bm, nullptr, nullptr)) break;
    static Bytes body;
    body.assign(2200 + t.range(0, 1200), 'u');
    request(f, t.flag() ? COAP_MESSAGE_CON : COAP_MESSAGE_NON, COAP_REQUEST_CODE_PUT, "p", token, -1, &body, true);
    f.w.run(f.w.now + 400000, 80000);
    break;
  }
  case 5:
    f.big.assign(2200 + t.range(0, 1200), 'd');
    if (!setup(f, COAP_PROTO_UDP, bm, nullptr, nullptr)) break;
    request(f, t.flag() ? COAP_MESSAGE_CON : COAP_MESSAGE_NON, COAP_REQUEST_CODE_GET, "big", token, -1, nullptr, false);
    f.w.run(f.w.now + 400000, 80000);
    break;
  case 6: {
    if (!setup(f, COAP_PROTO_UDP, bm, nullptr, nullptr)) break;
    if (token.empty()) token = {7};
    request(f, COAP_MESSAGE_CON, COAP_REQUEST_CODE_GET, "obs", token, 0, nullptr, false);
    f.w.run(f.w.now + 100, 20000);
    unsigned n = t.range(1, 7);
    for (unsigned i = 0; i < n; i++) { f.obs_state++; coap_resource_notify_observers(f.obs_res, nullptr); f.w.run(f.w.now + 100, 20000); }
    if (t.flag()) { coap_binary_t tk = {token.size(), token.data()}; coap_cancel_observe(f.session, &tk, COAP_MESSAGE_CON); }
    else { coap_delete_resource(f.sctx, f.obs_res); f.obs_res = nullptr; }
    f.w.run(f.w.now + 200000, 40000);
    break;
  }
  case 7:
    if (!setup(f, COAP_PROTO_UDP, bm, nullptr, nullptr)) break;
    request(f, t.flag() ? COAP_MESSAGE_CON : COAP_MESSAGE_NON, COAP_REQUEST_CODE_GET, "sep", token, -1, nullptr, false);
    f.w.run(f.w.now + 200000, 40000);
    break;
  case 8: {
    std::string s = oscore_conf(true), c = oscore_conf(false);
    if (!setup(f, COAP_PROTO_UDP, bm, &s, &c)) break;
    request(f, t.flag() ? COAP_MESSAGE_CON : COAP_MESSAGE_NON, COAP_REQUEST_CODE_GET, "r", token, -1, nullptr, false);
    f.w.run(f.w.now + 200000, 40000);
    if (f.session) f.session->doing_first = 0;   // (see C14: the wall-clock wait for the first response)
    Bytes pl = t.blob(t.range(1, 60));
    request(f, COAP_MESSAGE_NON, COAP_REQUEST_CODE_PUT, "p", token, -1, &pl, false);
    f.w.run(f.w.now + 200000, 40000);
    break;
  }
  case 9: {
    // URI / optlist helpers: split -> optlist -> PDU, as in the client examples
    static const char *URIS[] = {"coap://example.org/a/b/c?x=1&y=2", "coap://[2001:db8::1]:1234/%7Euser/..%2F/x?q=%26", "coaps+tcp://h.example:99/", "coap://h/a/../b/./c?k", "coap+ws://host.example/.well-known/core?rt=x*"};
    std::string u = URIS[t.range(0, 4)];
    if (t.flag()) u += "/" + std::string(t.range(1, 40), 'z') + "?" + std::string(t.range(1, 40), 'q');
    coap_uri_t uri;
    if (coap_split_uri((const uint8_t *)u.data(), u.size(), &uri) == 0) {
      coap_optlist_t *chain = nullptr;
      uint8_t buf[64];
      int ok = coap_uri_into_optlist(&uri, nullptr, &chain, 1);
      if (ok) {
        coap_optlist_t *o = coap_new_optlist(COAP_OPTION_CONTENT_FORMAT, coap_encode_var_safe(buf, sizeof buf, 42), buf);
        if (o) coap_insert_optlist(&chain, o);
        coap_pdu_t *pdu = coap_pdu_init(COAP_MESSAGE_CON, COAP_REQUEST_CODE_GET, 1, 1152);
        if (pdu) { coap_add_optlist_pdu(pdu, &chain); coap_string_t *q = coap_get_query(pdu); coap_delete_string(q); coap_string_t *p = coap_get_uri_path(pdu); coap_delete_string(p); coap_delete_pdu(pdu); }
      }
      coap_delete_optlist(chain);
    }
    coap_uri_t *nu = coap_new_uri((const uint8_t *)u.data(), (unsigned)u.size());
    if (nu) { coap_uri_t *cu = coap_clone_uri(nu); coap_delete_uri(cu); coap_delete_uri(nu); }
    break;
  }
  case 10: {
    if (!setup(f, COAP_PROTO_UDP, bm, nullptr, nullptr)) break;
    unsigned n = t.range(1, 6);
    for (unsigned i = 0; i < n; i++) {
      char name[16];
      snprintf(name, sizeof name, "x%u", i);
      coap_resource_t *res = coap_resource_init(coap_make_str_const(name), COAP_RESOURCE_FLAGS_RELEASE_URI * 0);
      if (!res) break;
      coap_register_handler(res, COAP_REQUEST_GET, h_get);
      coap_add_attr(res, coap_make_str_const("rt"), coap_make_str_const("\"temperature-c\""), 0);
      coap_add_attr(res, coap_make_str_const("title"), coap_make_str_const("\"A resource\""), 0);
      if (i & 1) coap_add_attr(res, coap_make_str_const("obs"), nullptr, 0);
      coap_add_resource(f.sctx, res);
    }
    coap_pdu_t *pdu = coap_new_pdu(COAP_MESSAGE_CON, COAP_REQUEST_CODE_GET, f.session);
    if (pdu) {
      bool ok = coap_add_token(pdu, token.size(), token.empty() ? (const uint8_t *)"" : token.data()) && coap_add_option(pdu, COAP_OPTION_URI_PATH, 11, (const uint8_t *)".well-known") &&
                coap_add_option(pdu, COAP_OPTION_URI_PATH, 4, (const uint8_t *)"core");
      if (ok && t.flag()) ok = coap_add_option(pdu, COAP_OPTION_URI_QUERY, 8, (const uint8_t *)"rt=temp*");
      if (ok) coap_send(f.session, pdu); else coap_delete_pdu(pdu);
    }
    f.w.run(f.w.now + 400000, 80000);
    break;
  }
  case 11:
    if (!setup(f, COAP_PROTO_TCP, bm, nullptr, nullptr)) break;
    f.w.run(f.w.now + 100, 20000);
    request(f, COAP_MESSAGE_CON, COAP_REQUEST_CODE_GET, "r", token, -1, nullptr, false);
    f.w.run(f.w.now + 200000, 40000);
    break;
  case 15: {
    // messages on a stream transport that are larger than the buffer libcoap starts a message with: the PDU under construction has to grow
    // while it is being received (server: the request, client: nothing large comes back)
    if (!setup(f, COAP_PROTO_TCP, bm, nullptr, nullptr)) break;
    f.w.run(f.w.now + 100, 20000);
    Bytes pl = t.blob(300 + t.range(0, 600));
    request(f, COAP_MESSAGE_CON, COAP_REQUEST_CODE_PUT, "p", token, -1, &pl, false);
    f.w.run(f.w.now + 200000, 40000);
    break;
  }
  case 13: {
    // the listening address given to the constructor: the endpoint is created inside coap_new_context()
    coap_address_t la;
    SRV.to_coap(&la);
    f.sctx = coap_new_context(&la);
    if (f.sctx) f.w.add_context(f.sctx);
    break;
  }
  case 14: {
    // a peer that is not libcoap uploads a body in Block1 messages without announcing its size (Size1 is optional): the server has to
    // enlarge the body it re-assembles with every block
    if (!setup(f, COAP_PROTO_UDP, COAP_BLOCK_USE_LIBCOAP | COAP_BLOCK_SINGLE_BODY, nullptr, nullptr)) break;
    Peer *peer = f.w.add_peer(Addr::v4(10, 0, 3, 1, 40001));
    unsigned nblocks = 3 + (unsigned)(token.size() % 3);
    auto block = [&](unsigned num) {
      ref::Msg m;
      m.type = 0; m.code = 3; m.mid = (uint16_t)(0x3100 + num); m.token = {0x51, (uint8_t)num};
      m.opts.push_back(ref::Opt{11, {'p'}});
      m.opts.push_back(ref::Opt{27, simh::uint_opt(num << 4 | (num + 1 < nblocks ? 8 : 0) | 2)});   // 64-byte blocks
      m.payload.assign(num + 1 < nblocks ? 64 : 40, (uint8_t)('a' + num));
      return ref::encode(m, ref::F_UDP);
    };
    peer->on_rx = [&, nblocks](World &ww, Peer &p, const Datagram &d) {
      ref::Msg r;
      if (!simh::parse(d.data, &r) || r.code != 0x5f) return;   // 2.31 Continue -> next block; anything else ends the upload
      const ref::Opt *b1 = simh::find_opt(r, 27);
      if (!b1) return;
      unsigned next = (simh::opt_uint(b1->val) >> 4) + 1;
      if (next < nblocks) ww.peer_send(&p, d.src, block(next));
    };
    f.w.peer_send(peer, SRV, block(0));
    f.w.run(f.w.now + 60000, 40000);
    peer->on_rx = nullptr;
    break;
  }
  default: {
    if (!setup(f, COAP_PROTO_UDP, bm, nullptr, nullptr)) break;
    coap_pdu_t *pdu = coap_new_pdu(COAP_MESSAGE_CON, COAP_REQUEST_CODE_GET, f.session);
    if (!pdu) break;
    coap_add_token(pdu, token.size(), token.empty() ? (const uint8_t *)"" : token.data());
    coap_add_option(pdu, COAP_OPTION_URI_PATH, 1, (const uint8_t *)"r");
    coap_add_option(pdu, COAP_OPTION_URI_QUERY, 3, (const uint8_t *)"a=b");
    coap_cache_key_t *key = coap_cache_derive_key(f.session, pdu, COAP_CACHE_IS_SESSION_BASED);
    if (key) {
      coap_cache_entry_t *e = coap_new_cache_entry(f.session, pdu, COAP_CACHE_RECORD_PDU, COAP_CACHE_IS_SESSION_BASED, 60);
      if (e) { coap_cache_entry_t *g = coap_cache_get_by_key(f.cctx, key); (void)g; coap_cache_get_by_pdu(f.session, pdu, COAP_CACHE_IS_SESSION_BASED); }
      coap_delete_cache_key(key);
    }
    coap_delete_pdu(pdu);
    break;
  }
  }
}

std::string site_name(void *pc) {
  if (!pc) return "?";
  char b[256];
  __sanitizer_symbolize_pc(pc, "%f", b, sizeof b);
  return b;
}

}  // namespace

int verif_case(const uint8_t *tape, size_t tlen, Info *info);
// Triage aid (not a registered check): C18_SURVEY=<dir> walks every (scenario, k) in a forked child each, so that a crash ends one case only,
// and prints one line per case that does not hold.
static void survey(const char *dir) {
  std::string d = dir;
  (void)!system(("mkdir -p " + d).c_str());
  for (unsigned sc = 0; sc < NSC; sc++) {
    if (getenv("C18_SURVEY_SC") && (unsigned)atoi(getenv("C18_SURVEY_SC")) != sc) continue;
    unsigned bad = 0, n = 0;
    for (unsigned k = 0; k < 400; k++) {
      std::string log = d + "/" + std::to_string(sc) + "-" + std::to_string(k) + ".log";
      pid_t pid = fork();
      if (pid == 0) {
        if (!freopen(log.c_str(), "w", stderr)) _exit(99);
        setvbuf(stderr, nullptr, _IONBF, 0);
        alarm(30);
        uint8_t tape[4] = {(uint8_t)sc, (uint8_t)(k & 0xff), (uint8_t)(k >> 8), 0};
        Info info;
        int v = verif_case(tape, 4, &info);
        fprintf(stderr, "CASE %s\n", info.render.c_str());
        if (v == VIOLATION) fprintf(stderr, "VIOLATION %s\n", info.message.c_str());
        fflush(stderr);
        _exit(v == VIOLATION ? 10 : v == OUT_OF_DOMAIN ? 11 : 0);
      }
      int st = 0;
      waitpid(pid, &st, 0);
      if (WIFEXITED(st) && WEXITSTATUS(st) == 11) { unlink(log.c_str()); break; }
      n++;
      if (WIFEXITED(st) && WEXITSTATUS(st) == 0) { unlink(log.c_str()); continue; }
      bad++;
      printf("%s k=%u: %s\n", SC_NAMES[sc], k, WIFEXITED(st) ? (WEXITSTATUS(st) == 10 ? "violation" : "abort") : "signal");
      fflush(stdout);
    }
    printf("== %s: %u allocations, %u do not hold\n", SC_NAMES[sc], n, bad);
    fflush(stdout);
  }
}

void verif_init() {
  coap_startup();
  coap_set_log_level(getenv("C18_DEBUG") ? COAP_LOG_DEBUG : COAP_LOG_EMERG);
  if (getenv("C18_SURVEY")) { survey(getenv("C18_SURVEY")); exit(0); }
}

int verif_case(const uint8_t *tape, size_t tlen, Info *info) {
  Tape t(tape, tlen);
  // (scenarios added after the first 13 take the byte values at the top, so that earlier tapes keep their scenario)
  unsigned raw = t.u8();
  unsigned sc = (raw >= 247 && raw <= 254) ? 13 + (raw - 247) % (NSC - 13) : raw % 13;
  unsigned k = t.range(0, 399);
  int k2 = t.chance(24) ? (int)(k + 1 + t.range(0, 40)) : -1;
  if (getenv("VERIF_TIER") && !strcmp(getenv("VERIF_TIER"), "quick")) k2 = -1;
  int verdict = HELD;
  std::string site;
  uint64_t requests = 0, failed = 0, setup_requests = 0;
  int followup_failed = 0;
  {
    Fx f;
    F = &f;
    seed_prng(7);
    A.reset();
    A.enabled = true;
    A.fail_at = k;
    A.fail_at2 = k2;
    run_scenario(sc, t, f);
    requests = A.requests;
    failed = A.failed;
    site = site_name(A.fail_site);
    // memory is available again for the tear-down (the failure to inject was "a single allocation")
    A.fail_at = A.fail_at2 = -1;
    // "the next operation with memory available succeeds" - on the objects that survived, not only on new ones: a plain GET on the same
    // UDP session is answered (after whatever is still being retransmitted has ended).  Not asked of the OSCORE and TCP scenarios,
    // where dropping the association / the connection is an admissible way of failing.
    if (failed && f.setup_ok && sc != 8 && sc != 11 && sc != 13 && sc != 15) {
      unsigned before = f.responses;
      bool sent = request(f, COAP_MESSAGE_CON, COAP_REQUEST_CODE_GET, "r", {0xcb, 0x01}, -1, nullptr, false);
      f.w.steps = 0;
      if (sent) f.w.run(f.w.now + 400000, 60000);
      if (!sent || f.responses == before) followup_failed = sent ? 2 : 1;
      info->label("follow-up-on-same-session");
    }
    teardown(f);
    F = nullptr;
  }
  A.enabled = false;
  char hb[200];
  snprintf(hb, sizeof hb, "%s k=%u%s of %llu requests, failed %llu at %s", SC_NAMES[sc], k, k2 >= 0 ? ("+" + std::to_string(k2)).c_str() : "", (unsigned long long)requests, (unsigned long long)failed, site.c_str());
  info->rs(hb);
  if (!failed) { A.reset(); return OUT_OF_DOMAIN; }   // k lies beyond the scenario's allocations
  if (A.double_frees) { info->fail("%s: an object of libcoap memory type %d was released twice", hb, A.double_free_type); verdict = VIOLATION; }
  else if (!A.live.empty()) {
    std::map<int, unsigned> by_type;
    for (auto &kv : A.live) by_type[kv.second.first]++;
    std::string s;
    for (auto &kv : by_type) s += " type " + std::to_string(kv.first) + " x" + std::to_string(kv.second);
    info->fail("%s: after tear-down %zu libcoap object(s) are still allocated:%s", hb, A.live.size(), s.c_str());
    verdict = VIOLATION;
  } else if (__lsan_do_recoverable_leak_check()) { info->fail("%s: LeakSanitizer reports unreachable memory after tear-down", hb); verdict = VIOLATION; }
  A.reset();
  if (verdict == HELD && followup_failed) {
    info->fail("%s: afterwards, with memory available, a plain CON GET on the same session %s", hb, followup_failed == 1 ? "is refused by coap_send()" : "gets no response");
    verdict = VIOLATION;
  }
  if (verdict == HELD) {
    // canary with memory available: a fresh exchange works
    Fx f;
    F = &f;
    bool ok = setup(f, COAP_PROTO_UDP, COAP_BLOCK_USE_LIBCOAP, nullptr, nullptr) && request(f, COAP_MESSAGE_CON, COAP_REQUEST_CODE_GET, "r", {0xca}, -1, nullptr, false);
    if (ok) f.w.run(f.w.now + 10000, 20000);
    ok = ok && f.responses == 1;
    teardown(f);
    F = nullptr;
    if (!ok) { info->fail("%s: afterwards, with memory available, a fresh GET exchange between new contexts does not complete", hb); verdict = VIOLATION; }
  }
  // the first allocations of every scenario are those of context / endpoint creation
  (void)setup_requests;
  info->nontrivial = k >= 12;
  info->label(SC_NAMES[sc]);
  Info h;
  std::string key = std::string(SC_NAMES[sc]) + "@" + site;
  info->mix(key.data(), key.size());
  return verdict;
}

// enumeration tier: every k of every scenario with default parameters (tape bytes after k are zero)
size_t verif_enum(uint64_t i, std::vector<uint8_t> *tape) {
  const uint64_t KMAX = 400;
  if (tape) {
    unsigned sc = (unsigned)(i % NSC), k = (unsigned)(i / NSC);
    *tape = {(uint8_t)(sc < 13 ? sc : 247 + (sc - 13)), (uint8_t)(k & 0xff), (uint8_t)(k >> 8), 0x00};
  }
  return NSC * KMAX;
}
