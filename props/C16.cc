// C16 — URI text <-> CoAP options: agreement with RFC 3986 / RFC 7252 s6.4, injectivity of the reconstructed
// path/query strings, and no read outside the length-delimited input (exact-size heap copies under ASan).
#include "lc.h"
#include "../ref/refuri.h"
#include <arpa/inet.h>
using namespace verif;

const char *verif_property_id = "C16";
const char *verif_rule =
    "tape -> one of: (A1) grammar-built valid URI (6 coap schemes + http/https in proxy mode; reg-name / IPv4 / IPv6 literal / %2F unix host; "
    "port absent, empty, default, 0..65535, leading zeros; 0..5 path segments from unreserved, sub-delims, ':' '@', escapes incl. %2F %2E %25 %00, "
    "literal and escaped dot segments, empty segments; query with '&' '=' '/' '?' and escapes) checked against ref/refuri.h for split, "
    "coap_uri_into_optlist, coap_split_path/coap_split_query (every buffer size 0..needed+8) and coap_path/query_into_optlist; "
    "(A2) targeted invalid URIs (no ://, unknown scheme, http outside proxy mode, empty host, unterminated '[', port > 65535, junk after port) "
    "which must be rejected; (A3) blind bytes / path strings ending in '%', '%X' (memory safety + accept/reject equivalence); "
    "(B) segment lists over the full byte alphabet placed in a request as Uri-Path / Uri-Query: reconstructed string decodes back to the list "
    "(left inverse => injective), near-miss lists give different strings, and the string feeds back through coap_path/query_into_optlist "
    "to the same options. Every input lives in a malloc(len) buffer without terminator. Non-trivial = input contains a percent-escape or dot segment, "
    "ends in '%'/'%X', has an IPv6/port form, or (B) a segment containing a byte that needs escaping; distinct = by input text/list";
size_t verif_max_tape = 200;

void verif_init() {
  coap_startup();
  coap_set_log_level(COAP_LOG_EMERG);
}

namespace {

struct Exact {  // exact-size heap copy, no terminator
  uint8_t *p;
  size_t n;
  explicit Exact(const std::string &s) : n(s.size()) { p = (uint8_t *)malloc(n ? n : 1); if (n) memcpy(p, s.data(), n); }
  ~Exact() { free(p); }
};

const char UNRES[] = "abcdefghijklmnopqrstuvwxyzABCDEFGHIJKLMNOPQRSTUVWXYZ0123456789-._~";
const char SUBDELIM[] = "!$'()*+,;=";   // '&' handled separately

std::string gen_piece(Tape &t, bool query, bool *special) {
  switch (t.pick({8, 3, 4, 1, 1})) {
  case 0: return std::string(1, UNRES[t.range(0, sizeof(UNRES) - 2)]);
  case 1: { char c = SUBDELIM[t.range(0, sizeof(SUBDELIM) - 2)]; if (t.chance(64)) c = t.flag() ? ':' : '@'; return std::string(1, c); }
  case 2: {
    static const char *ESC[] = {"%41", "%2F", "%2f", "%2E", "%2e", "%25", "%00", "%ff", "%FF", "%26", "%3F", "%23", "%20", "%7e", "%2541", "%C3%A9"};
    *special = true;
    return ESC[t.range(0, 15)];
  }
  case 3: {
    char b[4];
    static const char H[] = "0123456789abcdefABCDEF";
    b[0] = '%'; b[1] = H[t.range(0, 21)]; b[2] = H[t.range(0, 21)]; b[3] = 0;
    *special = true;
    return b;
  }
  default: return query ? std::string(1, t.flag() ? '/' : '?') : std::string("x");
  }
}

std::string gen_path_segment(Tape &t, bool *special) {
  switch (t.pick({10, 2, 2, 1, 1, 1, 2})) {
  case 1: *special = true; return ".";
  case 2: *special = true; return "..";
  case 3: *special = true; return t.flag() ? "%2E" : "%2e";
  case 4: { *special = true; static const char *DD[] = {"%2E%2E", ".%2e", "%2e.", "%2E%2e"}; return DD[t.range(0, 3)]; }
  case 5: { *special = true; static const char *ND[] = {"...", ".a", "a.", "..a", ".%2E.", "%2E%41"}; return ND[t.range(0, 5)]; }
  case 6: return "";
  default: break;
  }
  std::string s;
  unsigned n = t.range(1, 6);
  for (unsigned i = 0; i < n; i++) s += gen_piece(t, false, special);
  return s;
}

std::vector<std::string> read_optbuf(const uint8_t *buf, size_t used, int n, bool *ok) {
  std::vector<std::string> out;
  size_t p = 0;
  *ok = true;
  for (int i = 0; i < n; i++) {
    if (p >= used) { *ok = false; break; }
    uint8_t b = buf[p++];
    if ((b >> 4) != 0) { *ok = false; break; }
    size_t len = b & 15;
    if (len == 13) { if (p + 1 > used) { *ok = false; break; } len = 13 + buf[p]; p += 1; }
    else if (len == 14) { if (p + 2 > used) { *ok = false; break; } len = 269 + (buf[p] << 8 | buf[p + 1]); p += 2; }
    else if (len == 15) { *ok = false; break; }
    if (p + len > used) { *ok = false; break; }
    out.push_back(std::string((const char *)buf + p, len));
    p += len;
  }
  if (p != used) *ok = false;
  return out;
}

size_t optbuf_need(const std::vector<std::string> &segs) {
  size_t s = 0;
  for (auto &x : segs) s += 1 + (x.size() >= 269 ? 2 : x.size() >= 13 ? 1 : 0) + x.size();
  return s;
}

std::string show(const std::vector<std::string> &v) {
  std::string s = "[";
  for (auto &x : v) { s += "'"; s += hex((const uint8_t *)x.data(), x.size(), 16); s += "' "; }
  return s + "]";
}

std::vector<std::string> chain_values(coap_optlist_t *chain, uint16_t num) {
  std::vector<std::string> out;
  for (coap_optlist_t *o = chain; o; o = o->next)
    if (o->number == num) out.push_back(std::string((const char *)o->data, o->length));
  return out;
}

// coap_split_path / coap_split_query with every buffer size; exact result demanded when the buffer suffices
bool check_split_fn(bool is_path, const std::string &text, const std::vector<std::string> &want_a, const std::vector<std::string> &want_b,
                    bool exact_domain, Info *info) {
  Exact in(text);
  // "sufficient" means room for every segment before dot-segment removal: a '..' only frees space after
  // the segments it removes were written
  size_t need = std::max(optbuf_need(want_a), optbuf_need(want_b));
  {
    std::vector<std::string> all;
    size_t st = 0;
    char sep = is_path ? '/' : '&';
    for (size_t i = 0; i <= text.size(); i++)
      if (i == text.size() || text[i] == sep) { all.push_back(refuri::pct_decode(text.substr(st, i - st))); st = i + 1; }
    need = std::max(need, optbuf_need(all));
  }
  size_t maxbuf = need + 8;
  if (maxbuf > 600) maxbuf = 600;
  for (size_t bl = 0; bl <= maxbuf; bl++) {
    if (bl > 40 && bl + 10 < need) { bl += 6; }
    uint8_t *buf = (uint8_t *)malloc(bl ? bl : 1);
    size_t used = bl;
    int n = is_path ? coap_split_path(in.p, in.n, buf, &used) : coap_split_query(in.p, in.n, buf, &used);
    bool ok = true;
    if (used > bl) { info->fail("%s: reports %zu bytes used in a %zu byte buffer", is_path ? "coap_split_path" : "coap_split_query", used, bl); ok = false; }
    if (ok && n >= 0) {
      bool pok;
      std::vector<std::string> got = read_optbuf(buf, used, n, &pok);
      if (!pok) { info->fail("%s(buflen %zu): output buffer is not %d well-formed options", is_path ? "coap_split_path" : "coap_split_query", bl, n); ok = false; }
      else if (exact_domain && bl >= need) {
        if (refuri::norm(got) != refuri::norm(want_a) && refuri::norm(got) != refuri::norm(want_b)) {
          info->fail("%s('%s', buflen %zu) = %s, reference %s", is_path ? "coap_split_path" : "coap_split_query", text.c_str(), bl, show(got).c_str(), show(want_a).c_str());
          ok = false;
        }
      }
    }
    free(buf);
    if (!ok) return false;
  }
  return true;
}

bool check_into_optlist(bool is_path, const std::string &text, const std::vector<std::string> &want_a, const std::vector<std::string> &want_b, Info *info) {
  Exact in(text);
  coap_optlist_t *chain = nullptr;
  uint16_t num = is_path ? COAP_OPTION_URI_PATH : COAP_OPTION_URI_QUERY;
  int r = is_path ? coap_path_into_optlist(in.p, in.n, num, &chain) : coap_query_into_optlist(in.p, in.n, num, &chain);
  bool ok = true;
  if (!r) { info->fail("%s('%s') failed", is_path ? "coap_path_into_optlist" : "coap_query_into_optlist", text.c_str()); ok = false; }
  else {
    std::vector<std::string> got = chain_values(chain, num);
    if (refuri::norm(got) != refuri::norm(want_a) && refuri::norm(got) != refuri::norm(want_b)) {
      info->fail("%s('%s') = %s, reference %s", is_path ? "coap_path_into_optlist" : "coap_query_into_optlist", text.c_str(), show(got).c_str(), show(want_a).c_str());
      ok = false;
    }
  }
  coap_delete_optlist(chain);
  return ok;
}

int mode_valid_uri(Tape &t, Info *info) {
  bool special = false;
  bool proxy = t.chance(40);
  int scheme = proxy ? (int)t.range(0, 7) : (int)t.choose((const int[]){0, 1, 2, 3, 6, 7});
  std::string host;
  int hostkind = (int)t.pick({5, 2, 2, 1});
  std::string host_lit;
  if (hostkind == 0) {
    unsigned n = t.range(1, 10);
    for (unsigned i = 0; i < n; i++) {
      switch (t.pick({10, 2, 1})) {
      case 0: host += UNRES[t.range(0, sizeof(UNRES) - 2)]; break;
      case 1: host += t.flag() ? "%41" : "%7a"; special = true; break;
      default: host += '-'; break;
      }
    }
    if (host[0] == '%' ) host = "h" + host;
    host_lit = host;
  } else if (hostkind == 1) {
    char b[32];
    snprintf(b, sizeof b, "%u.%u.%u.%u", t.range(0, 255), t.range(0, 255), t.range(0, 255), t.range(0, 255));
    host = host_lit = b;
  } else if (hostkind == 2) {
    static const char *V6[] = {"::1", "2001:db8::1", "fe80::1%25eth0", "::ffff:1.2.3.4", "2001:0db8:0000:0000:0000:0000:0000:0001", "::"};
    host = V6[t.range(0, 5)];
    host_lit = "[" + host + "]";
    special = true;
  } else {
    host = host_lit = t.flag() ? "%2Ftmp%2Fcoap.sock" : "%2fvar%2Frun%2Fs";
    special = true;
  }
  std::string portstr;
  unsigned port = refuri::DEFPORT[scheme];
  bool unixd = hostkind == 3;
  if (unixd) port = 0;
  if (!unixd) {
    switch (t.pick({4, 1, 2, 2, 1, 1})) {
    case 0: break;
    case 1: portstr = ":"; break;
    case 2: { port = t.range(0, 65535); portstr = ":" + std::to_string(port); special = true; break; }
    case 3: { portstr = ":" + std::to_string(port); special = true; break; }
    case 4: { port = t.flag() ? 65535 : 0; portstr = ":" + std::to_string(port); special = true; break; }
    default: { port = t.range(0, 65535); portstr = ":000" + std::to_string(port); special = true; break; }
    }
  }
  std::string path, query;
  bool have_path = t.pick({1, 5}) != 0, have_query = t.pick({2, 1}) != 0;
  if (have_path) {
    unsigned n = (unsigned)t.pick({2, 4, 4, 3, 2, 1});
    for (unsigned i = 0; i < n; i++) { if (i) path += "/"; path += gen_path_segment(t, &special); }
    if (n && t.chance(32)) path += "/";
  }
  if (have_query) {
    unsigned n = t.range(1, 3);
    for (unsigned i = 0; i < n; i++) {
      if (i) query += "&";
      unsigned k = t.range(0, 5);
      for (unsigned j = 0; j < k; j++) query += gen_piece(t, true, &special);
    }
  }
  std::string uri = std::string(refuri::SCHEMES[scheme]) + "://" + host_lit + portstr;
  if (have_path) uri += "/" + path;
  if (have_query) uri += "?" + query;
  info->r("valid-uri '%s'%s", uri.c_str(), proxy ? " (proxy)" : "");
  info->mix(uri.data(), uri.size());
  info->nontrivial = special;
  info->label("A1:valid-uri");

  refuri::Parts rp;
  int rr = refuri::split(uri, proxy, &rp);
  if (rr != 0) { info->fail("harness: generated URI rejected by the reference (%d)", rr); return VIOLATION; }
  Exact in(uri);
  coap_uri_t cu;
  int r = proxy ? coap_split_proxy_uri(in.p, in.n, &cu) : coap_split_uri(in.p, in.n, &cu);
  if (r != 0) { info->fail("valid URI rejected (%d)", r); return VIOLATION; }
  auto eq = [](const coap_str_const_t &a, const std::string &b) { return a.length == b.size() && (b.empty() || memcmp(a.s, b.data(), b.size()) == 0); };
  if ((int)cu.scheme != rp.scheme) { info->fail("scheme %d, reference %d", (int)cu.scheme, rp.scheme); return VIOLATION; }
  if (!eq(cu.host, rp.host)) { info->fail("host '%.*s', reference '%s'", (int)cu.host.length, cu.host.s, rp.host.c_str()); return VIOLATION; }
  if (cu.port != rp.port) { info->fail("port %u, reference %u", cu.port, rp.port); return VIOLATION; }
  if (!eq(cu.path, rp.path)) { info->fail("path '%.*s', reference '%s'", (int)cu.path.length, cu.path.s, rp.path.c_str()); return VIOLATION; }
  if (!eq(cu.query, rp.query)) { info->fail("query '%.*s', reference '%s'", (int)cu.query.length, cu.query.s, rp.query.c_str()); return VIOLATION; }
  // every pointer must lie inside the input
  auto inside = [&](const coap_str_const_t &a) { return a.length == 0 || (a.s >= in.p && a.s + a.length <= in.p + in.n); };
  if (!inside(cu.host) || !inside(cu.path) || !inside(cu.query)) { info->fail("component points outside the input"); return VIOLATION; }

  std::vector<std::string> pa, pb, qs;
  refuri::path_segments(rp.path, &pa, &pb);
  if (rp.path.empty()) { pa.clear(); pb.clear(); }
  if (!rp.query.empty()) qs = refuri::query_segments(rp.query);
  // ---- coap_uri_into_optlist ----
  {
    coap_address_t dst;
    coap_address_t *dstp = nullptr;
    int dk = (int)t.pick({3, 2, 2});
    std::string dst_text;
    if (dk == 1) {
      coap_address_init(&dst);
      dst.addr.sin.sin_family = AF_INET;
      dst.size = sizeof(struct sockaddr_in);
      dst_text = hostkind == 1 && t.flag() ? host : "192.0.2.7";
      inet_pton(AF_INET, dst_text.c_str(), &dst.addr.sin.sin_addr);
      dstp = &dst;
    } else if (dk == 2) {
      coap_address_init(&dst);
      dst.addr.sin6.sin6_family = AF_INET6;
      dst.size = sizeof(struct sockaddr_in6);
      dst_text = "2001:db8::1";
      inet_pton(AF_INET6, dst_text.c_str(), &dst.addr.sin6.sin6_addr);
      dstp = &dst;
    }
    int create = t.pick({3, 1}) == 0;
    coap_optlist_t *chain = nullptr;
    int ok = coap_uri_into_optlist(&cu, dstp, &chain, create);
    int verdict = HELD;
    if (!ok) { info->fail("coap_uri_into_optlist failed on a valid URI"); verdict = VIOLATION; }
    else {
      std::vector<std::string> gp = chain_values(chain, COAP_OPTION_URI_PATH), gq = chain_values(chain, COAP_OPTION_URI_QUERY);
      std::vector<std::string> gport = chain_values(chain, COAP_OPTION_URI_PORT), ghost = chain_values(chain, COAP_OPTION_URI_HOST);
      if (refuri::norm(gp) != refuri::norm(pa) && refuri::norm(gp) != refuri::norm(pb)) {
        info->fail("Uri-Path options %s, reference %s", show(gp).c_str(), show(pa).c_str());
        verdict = VIOLATION;
      } else if (refuri::norm(gq) != refuri::norm(qs)) {
        info->fail("Uri-Query options %s, reference %s", show(gq).c_str(), show(qs).c_str());
        verdict = VIOLATION;
      } else if (create && !unixd) {
        bool want_port = rp.port != refuri::DEFPORT[rp.scheme];
        if (want_port != !gport.empty()) { info->fail("Uri-Port option %s although port %u %s the default", gport.empty() ? "missing" : "present", rp.port, want_port ? "is not" : "is"); verdict = VIOLATION; }
        else if (want_port) {
          unsigned v = 0;
          for (unsigned char c : gport[0]) v = v << 8 | c;
          if (v != rp.port) { info->fail("Uri-Port value %u, URI port %u", v, rp.port); verdict = VIOLATION; }
        }
        if (verdict == HELD && hostkind == 0) {
          bool want_host = dstp != nullptr;
          if (want_host != !ghost.empty()) { info->fail("Uri-Host %s for a registered name with%s destination", ghost.empty() ? "missing" : "present", dstp ? "" : "out"); verdict = VIOLATION; }
          else if (want_host) {
            std::string w = refuri::pct_decode(rp.host);
            for (auto &c : w) if (c >= 'A' && c <= 'Z') c = (char)(c - 'A' + 'a');
            if (ghost[0] != w) { info->fail("Uri-Host '%s', reference '%s'", ghost[0].c_str(), w.c_str()); verdict = VIOLATION; }
          }
        }
      } else if (!create && (!gport.empty() || !ghost.empty())) {
        info->fail("Uri-Host/Uri-Port created although not requested");
        verdict = VIOLATION;
      }
    }
    coap_delete_optlist(chain);
    if (verdict != HELD) return verdict;
  }
  if (!rp.path.empty()) {
    if (!check_split_fn(true, rp.path, pa, pb, true, info)) return VIOLATION;
    if (!check_into_optlist(true, rp.path, pa, pb, info)) return VIOLATION;
  }
  if (!rp.query.empty()) {
    if (!check_split_fn(false, rp.query, qs, qs, true, info)) return VIOLATION;
    if (!check_into_optlist(false, rp.query, qs, qs, info)) return VIOLATION;
  }
  return HELD;
}

int mode_invalid_uri(Tape &t, Info *info) {
  std::string uri;
  const char *kind = "";
  switch (t.pick({1, 1, 1, 1, 1, 1, 1, 1})) {
  case 0: uri = t.flag() ? "coap:/host/p" : "coaphost/p"; kind = "no ://"; break;
  case 1: { static const char *S[] = {"coapx://h/p", "ftp://h/", "Coap://h/", "coap+udp://h/", "://h/"}; uri = S[t.range(0, 4)]; kind = "unknown scheme"; break; }
  case 2: uri = t.flag() ? "http://h/p" : "https://h:1/p"; kind = "http outside proxy"; break;
  case 3: { static const char *S[] = {"coap:///p", "coap://:5683/p", "coap://?q", "coap://"}; uri = S[t.range(0, 3)]; kind = "empty host"; break; }
  case 4: { static const char *S[] = {"coap://[::1", "coap://[", "coap://[]/p", "coaps://[2001:db8::1/p", "coap://[::1/]"}; uri = S[t.range(0, 3)]; kind = "bad bracket"; break; }
  case 5: uri = "coap://h:" + std::to_string(65536 + t.range(0, 4000000)) + "/p"; kind = "port > 65535"; break;
  case 6: { static const char *S[] = {"coap://h:12ab/p", "coap://h:-1/", "coap://h:56 83/", "coap://[::1]x/p"}; uri = S[t.range(0, 3)]; kind = "junk after port"; break; }
  default: uri = "coap://%2Ftmp%2Fsock:5683/p"; kind = "port on unix host"; break;
  }
  // hostile neighbours: the bytes the parser would see if it ran past the end are chosen by the allocator, so
  // use the exact-size copy and let ASan decide
  info->r("invalid-uri(%s) '%s'", kind, uri.c_str());
  info->mix(uri.data(), uri.size());
  info->nontrivial = true;
  info->label("A2:invalid-uri");
  refuri::Parts rp;
  if (refuri::split(uri, false, &rp) == 0) { info->fail("harness: reference accepts the invalid URI"); return VIOLATION; }
  Exact in(uri);
  coap_uri_t cu;
  int r = coap_split_uri(in.p, in.n, &cu);
  if (r >= 0) { info->fail("malformed URI (%s) accepted", kind); return VIOLATION; }
  return HELD;
}

int mode_blind(Tape &t, Info *info) {
  int sub = (int)t.pick({2, 2, 1});
  std::string text;
  if (sub == 0) {
    // blind URI with a plausible prefix so that it gets past the scheme
    static const char *PFX[] = {"coap://", "coaps://h", "coap://[", "coap://h:", "coap+tcp://h/", "coap://h/?", "/", ""};
    text = PFX[t.range(0, 7)];
    size_t n = t.left();
    if (n > 60) n = 60;
    for (size_t i = 0; i < n; i++) text += (char)t.u8();
    info->r("blind-uri %s", hex((const uint8_t *)text.data(), text.size(), 80).c_str());
    info->label("A3:blind-uri");
    refuri::Parts rp;
    int rr = refuri::split(text, false, &rp);
    Exact in(text);
    coap_uri_t cu;
    int r = coap_split_uri(in.p, in.n, &cu);
    info->nontrivial = text.find("://") != std::string::npos;
    info->mix(text.data(), text.size());
    if ((r == 0) != (rr == 0)) { info->fail("blind URI: libcoap %s (%d), reference %s (%d)", r == 0 ? "accepts" : "rejects", r, rr == 0 ? "accepts" : "rejects", rr); return VIOLATION; }
    if (r == 0) {
      auto inside = [&](const coap_str_const_t &a) { return a.length == 0 || (a.s >= in.p && a.s + a.length <= in.p + in.n); };
      if (!inside(cu.host) || !inside(cu.path) || !inside(cu.query)) { info->fail("component points outside the input"); return VIOLATION; }
      if (cu.port != rp.port || std::string((const char *)cu.path.s, cu.path.length) != rp.path || std::string((const char *)cu.query.s, cu.query.length) != rp.query) {
        info->fail("blind URI accepted but components differ from the reference");
        return VIOLATION;
      }
      coap_optlist_t *chain = nullptr;
      coap_uri_into_optlist(&cu, nullptr, &chain, 1);
      coap_delete_optlist(chain);
    }
    return HELD;
  }
  // path / query text: structured pieces with a chance of a dangling escape at the end
  bool is_path = sub == 1;
  bool special = false;
  unsigned n = t.range(0, 4);
  for (unsigned i = 0; i < n; i++) {
    if (i) text += is_path ? "/" : "&";
    if (is_path) text += gen_path_segment(t, &special);
    else { unsigned k = t.range(0, 4); for (unsigned j = 0; j < k; j++) text += gen_piece(t, true, &special); }
  }
  switch (t.pick({2, 2, 2, 1, 1})) {
  case 0: break;
  case 1: text += "%"; special = true; break;
  case 2: { static const char H[] = "0123456789abcdefABCDEFg"; text += "%"; text += H[t.range(0, 22)]; special = true; break; }
  case 3: text += "%zz"; special = true; break;
  default: { size_t k = t.range(0, 6); for (size_t i = 0; i < k; i++) text += (char)t.u8(); break; }
  }
  info->r("%s-text %s", is_path ? "path" : "query", hex((const uint8_t *)text.data(), text.size(), 80).c_str());
  info->label(is_path ? "A3:path-text" : "A3:query-text");
  info->nontrivial = special;
  info->mixu(is_path);
  info->mix(text.data(), text.size());
  bool valid = refuri::valid_escapes(text) && text.find('?') == std::string::npos && text.find('#') == std::string::npos;
  std::vector<std::string> a, b;
  if (is_path) refuri::path_segments(text, &a, &b); else a = b = refuri::query_segments(text);
  if (!check_split_fn(is_path, text, a, b, valid, info)) return VIOLATION;
  if (valid) { if (!check_into_optlist(is_path, text, a, b, info)) return VIOLATION; }
  else {
    Exact in(text);
    coap_optlist_t *chain = nullptr;
    if (is_path) coap_path_into_optlist(in.p, in.n, COAP_OPTION_URI_PATH, &chain);
    else coap_query_into_optlist(in.p, in.n, COAP_OPTION_URI_QUERY, &chain);
    coap_delete_optlist(chain);
  }
  return HELD;
}

std::string gen_raw_segment(Tape &t, bool *needs_escape) {
  std::string s;
  unsigned n = (unsigned)t.pick({2, 4, 4, 3, 2, 1, 1});
  if (t.chance(16)) n += t.range(8, 30);
  for (unsigned i = 0; i < n; i++) {
    switch (t.pick({6, 5, 2})) {
    case 0: s += UNRES[t.range(0, sizeof(UNRES) - 2)]; break;
    case 1: { static const char SP[] = "/%&?#.=+ ;:@\0\xff\x80\x7f\"<>"; s += SP[t.range(0, sizeof(SP) - 2)]; *needs_escape = true; break; }
    default: s += (char)t.u8(); break;
    }
  }
  return s;
}

std::string key_of(const std::vector<std::string> &segs, bool is_path, bool *ok) {
  coap_pdu_t *pdu = coap_pdu_init(COAP_MESSAGE_CON, COAP_REQUEST_CODE_GET, 1, 0);
  *ok = pdu != nullptr;
  if (!pdu) return "";
  static const uint8_t dummy[1] = {0};
  for (auto &s : segs)
    if (!coap_add_option(pdu, is_path ? COAP_OPTION_URI_PATH : COAP_OPTION_URI_QUERY, s.size(), s.empty() ? dummy : (const uint8_t *)s.data())) *ok = false;
  coap_string_t *k = is_path ? coap_get_uri_path(pdu) : coap_get_query(pdu);
  std::string out;
  if (k) { out.assign((const char *)k->s, k->length); coap_delete_string(k); }
  coap_delete_pdu(pdu);
  return out;
}

int mode_segments(Tape &t, Info *info, bool is_path) {
  bool esc = false;
  std::vector<std::string> segs;
  unsigned n = (unsigned)t.pick({1, 3, 4, 3, 2, 1});
  for (unsigned i = 0; i < n; i++) segs.push_back(gen_raw_segment(t, &esc));
  info->r("%s-segments %s", is_path ? "path" : "query", show(segs).c_str());
  info->label(is_path ? "B:path-segments" : "B:query-segments");
  info->nontrivial = esc && n >= 1;
  info->mixu(is_path);
  for (auto &s : segs) { info->mixu(s.size()); info->mix(s.data(), s.size()); }
  bool ok;
  std::string key = key_of(segs, is_path, &ok);
  if (!ok) return OUT_OF_DOMAIN;
  // (1) left inverse exists => the map list -> string is injective (single empty segment == no segment)
  std::vector<std::string> back = refuri::key_to_segments(key, is_path ? '/' : '&');
  if (refuri::norm(back) != refuri::norm(segs)) {
    if (!is_path && exclude_known(info, "query-key-ampersand-not-escaped")) {
      bool amp = false;
      for (auto &s : segs) if (s.find('&') != std::string::npos) amp = true;
      if (amp) return HELD;
    }
    info->fail("%s key '%s' does not decode back to the segment list: %s vs %s", is_path ? "path" : "query", key.c_str(), show(back).c_str(), show(segs).c_str());
    return VIOLATION;
  }
  // (2) near-miss list must give a different string
  if (!segs.empty()) {
    std::vector<std::string> other = segs;
    char sep = is_path ? '/' : '&';
    switch (t.pick({1, 1, 1, 1})) {
    case 0: if (other.size() >= 2) { other[0] = other[0] + sep + other[1]; other.erase(other.begin() + 1); } break;   // merge with separator
    case 1: { size_t i = t.range(0, (uint32_t)other.size() - 1); size_t p = other[i].find(sep); if (p != std::string::npos) { std::string r = other[i].substr(p + 1); other[i] = other[i].substr(0, p); other.insert(other.begin() + i + 1, r); } break; }
    case 2: other.push_back(""); break;
    default: { size_t i = t.range(0, (uint32_t)other.size() - 1); std::string e; for (unsigned char c : other[i]) { if (c == '%') e += "%25"; else e += (char)c; } other[i] = e; break; }
    }
    if (refuri::norm(other) != refuri::norm(segs)) {
      bool ok2;
      std::string k2 = key_of(other, is_path, &ok2);
      if (ok2 && k2 == key) { info->fail("two different %s segment lists give the same string '%s': %s and %s", is_path ? "path" : "query", key.c_str(), show(segs).c_str(), show(other).c_str()); return VIOLATION; }
    }
  }
  // (3) feed back: string -> options gives the same list (Uri-Path values "." and ".." are forbidden by RFC 7252 5.10.1)
  bool dotseg = false;
  for (auto &s : segs) if (s == "." || s == "..") dotseg = true;
  if (!(is_path && dotseg) && !key.empty()) {
    Exact in(key);
    coap_optlist_t *chain = nullptr;
    uint16_t num = is_path ? COAP_OPTION_URI_PATH : COAP_OPTION_URI_QUERY;
    int r = is_path ? coap_path_into_optlist(in.p, in.n, num, &chain) : coap_query_into_optlist(in.p, in.n, num, &chain);
    std::vector<std::string> got = chain_values(chain, num);
    coap_delete_optlist(chain);
    if (!r || refuri::norm(got) != refuri::norm(segs)) {
      info->fail("%s string '%s' feeds back to %s instead of %s", is_path ? "path" : "query", key.c_str(), show(got).c_str(), show(segs).c_str());
      return VIOLATION;
    }
    // and through the buffer based splitter
    std::vector<std::string> a = segs;
    if (!check_split_fn(is_path, key, a, a, true, info)) return VIOLATION;
  }
  return HELD;
}

}  // namespace

int verif_case(const uint8_t *tape, size_t tlen, Info *info) {
  Tape t(tape, tlen);
  switch (t.pick({5, 2, 3, 3, 2})) {
  case 0: return mode_valid_uri(t, info);
  case 1: return mode_invalid_uri(t, info);
  case 2: return mode_blind(t, info);
  case 3: return mode_segments(t, info, true);
  default: return mode_segments(t, info, false);
  }
}
