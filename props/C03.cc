// C03 — the decoder accepts exactly the well-formed messages and reports what is on the wire.
// Differential test: coap_pdu_parse() + accessors  vs  the independent strict decoder in ref/refcodec.h.
#include "lc.h"
using namespace verif;

const char *verif_property_id = "C03";
const char *verif_rule =
    "tape -> (framing UDP/TCP/WS, bytes): 1/4 blind bytes, 3/4 raw-written messages whose every field "
    "(version, TKL nibble, ext token length, option delta/length nibbles and extension bytes, value "
    "lengths around each registered option's limits, payload marker, Empty code) is individually chosen "
    "legal or illegal, then optionally truncated / byte-flipped; TCP length prefix always made consistent "
    "with the buffer as the stream reader does. Non-trivial = the reference decoder got past the fixed "
    "header and token (option parsing exercised); distinct = by (framing, bytes)";
size_t verif_max_tape = 160;

static const uint16_t REGISTERED[] = {1, 3, 4, 5, 6, 7, 8, 9, 11, 12, 14, 15, 16, 17, 19, 20, 23, 27, 28, 31, 35, 39, 60, 252, 258, 292};

void verif_init() {
  coap_startup();
  coap_set_log_level(COAP_LOG_EMERG);
  // self-test of the reference codec on vectors the repository asserts (tests/test_pdu.c)
  static const uint8_t v1[] = {0x62, 0x44, 0x12, 0x34, 0x00, 0x00, 0x8d, 0xf2, 'c', 'o', 'a', 'p', ':', '/', '/', 'e', 'x', 'a', 'm', 'p', 'l', 'e', '.', 'c', 'o', 'm', 0xff};
  ref::DecodeResult r = ref::decode(v1, sizeof v1, ref::F_UDP);
  if (r.ok) { fprintf(stderr, "harness self-test failed: marker-without-payload vector accepted\n"); exit(2); }
  static const uint8_t v2[] = {0x55, 0x69, 0x12, 0x34, 't', 'o', 'k', 'e', 'n'};
  r = ref::decode(v2, sizeof v2, ref::F_UDP);
  if (!r.ok || r.msg.token.size() != 5 || r.msg.type != 1 || r.msg.code != 0x69 || r.msg.mid != 0x1234) {
    fprintf(stderr, "harness self-test failed: t_parse_pdu vector\n"); exit(2);
  }
}

static void put_nib_ext(std::vector<uint8_t> &o, uint32_t v, int nib) {
  if (nib == 13) o.push_back((uint8_t)(v - 13));
  else if (nib == 14) { o.push_back((uint8_t)((v - 269) >> 8)); o.push_back((uint8_t)(v - 269)); }
}

static uint32_t gen_len(Tape &t) {
  switch (t.pick({10, 6, 2, 2, 2, 1, 1})) {
  case 0: return t.range(0, 12);
  case 1: return t.range(0, 3);
  case 2: return 13 + t.range(0, 2);
  case 3: return t.range(14, 268);
  case 4: return 269 + t.range(0, 2);
  case 5: return t.range(270, 1100);
  default: return t.range(65530, 65804);
  }
}

int verif_case(const uint8_t *tape, size_t tlen, Info *info) {
  Tape t(tape, tlen);
  ref::Framing f = (ref::Framing)t.pick({3, 2, 1});
  bool blind = t.pick({3, 1}) == 1;
  uint8_t b0_hi = 0;  // UDP: version+type bits ; TCP/WS: unused
  uint8_t tklnib = 0, code = 0;
  uint16_t mid = 0;
  std::vector<uint8_t> post;  // everything after the fixed header
  if (blind) {
    uint8_t b0 = t.u8();
    // keep version 1 most of the time so that blind bytes reach the option parser
    b0_hi = (uint8_t)((t.chance(16) ? (b0 >> 6) : 1) << 2 | ((b0 >> 4) & 3));
    tklnib = b0 & 15;
    if (!t.chance(64)) tklnib &= 7;
    code = t.u8();
    mid = t.u16();
    size_t n = t.left();
    post = t.vec(n);
    info->label("blind");
  } else {
    info->label("structured");
    uint8_t ver = t.chance(8) ? (uint8_t)t.range(0, 3) : 1;
    b0_hi = (uint8_t)(ver << 2 | t.range(0, 3));
    mid = t.u16();
    switch (t.pick({6, 4, 2, 2, 1})) {
    case 0: code = (uint8_t)t.range(1, 7); break;
    case 1: { static const uint8_t rc[] = {0x41, 0x44, 0x45, 0x5f, 0x84, 0x85, 0xa0}; code = t.choose(rc); break; }
    case 2: code = 0; break;
    case 3: code = (uint8_t)(0xE0 + t.range(1, 5)); break;
    default: code = t.u8(); break;
    }
    // token
    uint32_t tl;
    switch (t.pick({6, 4, 2, 2, 1, 1})) {
    case 0: tl = t.range(0, 8); break;
    case 1: tl = 0; break;
    case 2: tl = t.range(9, 12); break;
    case 3: tl = 13 + t.range(0, 3); break;
    case 4: tl = t.range(14, 268); break;
    default: tl = 269 + t.range(0, 40); break;
    }
    if (code == 0 && !t.chance(40)) tl = 0;
    tklnib = tl < 13 ? (uint8_t)tl : (tl < 269 ? 13 : 14);
    if (t.chance(6)) { tklnib = 15; info->label("mut:tkl15"); }
    else if (t.chance(6)) { tklnib = (uint8_t)t.range(9, 14); info->label("mut:tkl-nibble"); }
    if (tklnib == 13) post.push_back((uint8_t)(tl - 13));
    else if (tklnib == 14) { post.push_back((uint8_t)((tl - 269) >> 8)); post.push_back((uint8_t)(tl - 269)); }
    { std::vector<uint8_t> tok = t.blob(tl); post.insert(post.end(), tok.begin(), tok.end()); }
    if (code != 0 || t.chance(40)) {
      if (code == 0) info->label("mut:nonempty-empty");
      // options
      unsigned nopt = (unsigned)t.pick({2, 4, 4, 3, 2, 1, 1, 1, 1});
      uint32_t cur = 0;
      for (unsigned i = 0; i < nopt; i++) {
        uint32_t delta, len;
        bool aimed = t.pick({1, 1}) == 1;
        if (aimed) {
          uint16_t num = t.choose(REGISTERED);
          if (ref::is_signaling(code)) num = (uint16_t)t.range(1, 7);
          delta = num >= cur ? num - cur : t.range(0, 3);
          ref::Limit l{0, 0};
          ref::base_limit(cur + delta, &l);
          switch (t.pick({4, 2, 2, 2, 1})) {
          case 0: len = t.range(l.lo, l.hi > l.lo + 12 ? l.lo + 12 : l.hi); break;
          case 1: len = l.hi; break;
          case 2: len = l.hi + 1; break;
          case 3: len = l.lo > 0 ? l.lo - 1 : 0; break;
          default: len = gen_len(t); break;
          }
        } else {
          switch (t.pick({6, 3, 2, 2, 2, 2, 2})) {
          case 0: delta = t.range(0, 12); break;
          case 1: delta = 13 + t.range(0, 1); break;
          case 2: delta = t.range(14, 268); break;
          case 3: delta = 269 + t.range(0, 1); break;
          case 4: delta = t.range(270, 3000); break;
          case 5: delta = cur < 65535 ? 65535 - cur - t.range(0, 1) : 0; break;  // lands on 65534/65535
          default: delta = 65536 - (cur > 65536 ? 65536 : cur) + t.range(0, 300); break;  // crosses 65535
          }
          if (delta > 65535 + 269) delta = 65535 + 269;
          len = gen_len(t);
        }
        int dn = delta < 13 ? (int)delta : (delta < 269 ? 13 : 14);
        int ln = len < 13 ? (int)len : (len < 269 ? 13 : 14);
        uint32_t dval = delta, lval = len;
        if (t.chance(5)) { dn = 15; info->label("mut:delta15"); }
        if (t.chance(5)) { ln = 15; info->label("mut:len15"); }
        post.push_back((uint8_t)((dn < 13 ? dval : dn) << 4 | (ln < 13 ? lval : ln)));
        if (dn == 13 || dn == 14) put_nib_ext(post, dval < (dn == 13 ? 13u : 269u) ? (dn == 13 ? 13u : 269u) : dval, dn);
        if (ln == 13 || ln == 14) put_nib_ext(post, lval, ln);
        std::vector<uint8_t> v = t.blob(len);
        if (len && t.chance(24)) v[0] = 0xFF;  // payload-marker look-alike inside a value
        post.insert(post.end(), v.begin(), v.end());
        cur += delta;
      }
      // payload
      switch (t.pick({4, 5, 1})) {
      case 0: break;
      case 1: { post.push_back(0xFF); std::vector<uint8_t> p = t.blob(t.range(1, 40)); post.insert(post.end(), p.begin(), p.end()); break; }
      default: post.push_back(0xFF); info->label("mut:marker-only"); break;
      }
    }
    if (!post.empty() && t.chance(24)) { post.resize(t.range(0, (uint32_t)post.size() - 1)); info->label("mut:truncate"); }
    if (!post.empty() && t.chance(16)) { post[t.range(0, (uint32_t)post.size() - 1)] ^= (uint8_t)(1u << t.range(0, 7)); info->label("mut:bitflip"); }
  }

  // ---- assemble according to framing ------------------------------------------------
  std::vector<uint8_t> buf;
  if (f == ref::F_UDP) {
    buf.push_back((uint8_t)(b0_hi << 4 | tklnib));
    buf.push_back(code);
    buf.push_back((uint8_t)(mid >> 8));
    buf.push_back((uint8_t)mid);
  } else {
    // what the stream reader computes as the extended token length from the nibble + first bytes
    size_t etl;
    if (tklnib < 13) etl = tklnib;
    else if (tklnib == 13) { if (post.size() < 1) post.resize(1); etl = post[0] + 13 + 1; }
    else if (tklnib == 14) { if (post.size() < 2) post.resize(2); etl = (post[0] << 8 | post[1]) + 269 + 2; }
    else etl = 0;
    if (f == ref::F_TCP) {
      // the stream reader slices the stream by the declared length: buffer = hdr + etl + declared
      if (post.size() < etl) post.resize(etl);
      size_t d = post.size() - etl;
      if (d < 13) buf.push_back((uint8_t)(d << 4 | tklnib));
      else if (d < 269) { buf.push_back((uint8_t)(13 << 4 | tklnib)); buf.push_back((uint8_t)(d - 13)); }
      else if (d < 65805) { buf.push_back((uint8_t)(14 << 4 | tklnib)); buf.push_back((uint8_t)((d - 269) >> 8)); buf.push_back((uint8_t)(d - 269)); }
      else { uint32_t v = (uint32_t)(d - 65805); buf.push_back((uint8_t)(15 << 4 | tklnib)); buf.push_back((uint8_t)(v >> 24)); buf.push_back((uint8_t)(v >> 16)); buf.push_back((uint8_t)(v >> 8)); buf.push_back((uint8_t)v); }
      buf.push_back(code);
    } else {
      buf.push_back((uint8_t)((b0_hi & 15) << 4 | tklnib));  // Len nibble: any value, receiver ignores it
      buf.push_back(code);
    }
  }
  buf.insert(buf.end(), post.begin(), post.end());
  if (f == ref::F_UDP && !blind && t.chance(6)) { buf.resize(t.range(0, 3)); info->label("mut:short-header"); }

  info->r("%s %s", f == ref::F_UDP ? "UDP" : f == ref::F_TCP ? "TCP" : "WS", hex(buf, 64).c_str());
  info->mixu(f);
  info->mix(buf.data(), buf.size());

  // ---- reference verdict ---------------------------------------------------------------
  ref::DecodeResult rr = ref::decode(buf.data(), buf.size(), f, true);
  info->nontrivial = rr.past_header;
  info->label(rr.ok ? "ref:accept" : "ref:reject");
  if (rr.past_header) info->label(rr.ok ? "nt:accept" : "nt:reject");

  // ---- libcoap verdict (exact-size heap copy so that any over-read is an ASan report) ------
  coap_proto_t proto = lc::proto_of(f);
  uint8_t *exact = (uint8_t *)malloc(buf.size() ? buf.size() : 1);
  memcpy(exact, buf.data(), buf.size());
  coap_pdu_t *pdu = coap_pdu_init((coap_pdu_type_t)0, (coap_pdu_code_t)0, 0, 0);
  if (!pdu) { free(exact); return OUT_OF_DOMAIN; }
  int ok = coap_pdu_parse(proto, exact, buf.size(), pdu);
  int verdict = HELD;
  if (f == ref::F_TCP && buf.size() >= 1) {
    size_t hs = coap_pdu_parse_header_size(proto, exact);
    if (hs <= buf.size() && hs != rr.hdr_len && rr.hdr_len) {
      info->fail("TCP header size: libcoap %zu, reference %zu", hs, rr.hdr_len);
      verdict = VIOLATION;
    }
  }
  // known-finding classification of the input (structural keys)
  bool wrap_delta = false, biglen = false, uq0 = false, echo0 = false, qblock = false;
  {
    // re-scan with limits off to classify
    ref::DecodeResult nl = ref::decode(buf.data(), buf.size(), f, false);
    (void)nl;
  }
  if (verdict == HELD && (ok != 0) != rr.ok) {
    // Classify disagreement causes that are listed as known findings
    ref::DecodeResult nl = ref::decode(buf.data(), buf.size(), f, false);
    if (nl.ok && !rr.ok && !ref::is_signaling(nl.msg.code)) {
      // only a length-limit disagreement: which options are out of range?
      for (auto &o : nl.msg.opts) {
        ref::Limit l;
        if (!ref::base_limit(o.num, &l)) continue;
        size_t n = o.val.size();
        if ((int)n >= l.lo && (int)n <= l.hi) continue;
        if (n > 65535) biglen = true;
        else if (o.num == 252 && n == 0) echo0 = true;
        else if ((o.num == 19 || o.num == 31) && n > 3) qblock = true;
      }
    }
    if (rr.ok && !ok) {
      for (auto &o : rr.msg.opts) if (o.num == 15 && o.val.empty()) uq0 = true;
    }
    if (!rr.ok && std::string(rr.why) == "option number > 65535") wrap_delta = true;
    bool excluded = false;
    if (wrap_delta && exclude_known(info, "delta-wrap-16bit")) excluded = true;
    if (biglen && exclude_known(info, "option-length-truncated-to-16bit")) excluded = true;
    if (uq0 && exclude_known(info, "uri-query-length-0-rejected")) excluded = true;
    if (echo0 && exclude_known(info, "echo-length-0-accepted")) excluded = true;
    if (qblock && exclude_known(info, "qblock-length-unlimited")) excluded = true;
    if (!excluded) {
      info->fail("accept/reject disagreement: libcoap %s, reference %s (%s)", ok ? "accepts" : "rejects",
                 rr.ok ? "accepts" : "rejects", rr.why);
      verdict = VIOLATION;
    }
  } else if (verdict == HELD && ok && rr.ok) {
    ref::Msg lm = lc::dump(pdu);
    std::string d = lc::diff(lm, rr.msg, f == ref::F_UDP);
    if (!d.empty()) {
      info->fail("accepted by both but fields differ: %s  [lib: %s] [ref: %s]", d.c_str(), lc::render(lm).c_str(), lc::render(rr.msg).c_str());
      verdict = VIOLATION;
    }
    if (f == ref::F_TCP) {
      size_t hs = coap_pdu_parse_header_size(proto, exact);
      size_t ext = (exact[0] & 15) == 13 ? 1 : (exact[0] & 15) == 14 ? 2 : 0;
      size_t sz = coap_pdu_parse_size(proto, exact, hs + ext);
      if (sz != buf.size() - hs) {
        info->fail("coap_pdu_parse_size %zu but message has %zu bytes after the header", sz, buf.size() - hs);
        verdict = VIOLATION;
      }
    }
  }
  coap_delete_pdu(pdu);
  free(exact);
  return verdict;
}
