// C04 — in-place message edits change only what they name.
// Model-based: a list model (token, ordered options, payload) receives the same edits as the coap_pdu_t.
#include "pdumodel.h"
using namespace verif;
using pm::Model;

const char *verif_property_id = "C04";
const char *verif_rule =
    "tape -> start message (built through the API or parsed from reference-encoded bytes; with/without payload; max size "
    "unbounded / tight / loose) followed by up to 40 edits from {coap_insert_option, coap_update_option, coap_remove_option, "
    "coap_update_token, coap_add_option_internal}; option numbers drawn relative to the current list (existing number, neighbour +-12/13/14/268/269/270, "
    "registered, arbitrary), value lengths from the boundary set, token lengths {0..8, 9..12, 13.., 268/269/270, ..1000, 65802..65804}. "
    "After every edit: return value consistent with the model (refusal => unchanged; must succeed when it fits), accessor dump == model, "
    "serialisation == reference encoding and re-parses to the model. ASan moves the buffer on every growth. "
    "Non-trivial = >=3 successful edits incl. one that changes a neighbour's header size or the token length class, with payload present; "
    "distinct = by final serialised bytes + number of edits";
size_t verif_max_tape = 400;

static const uint8_t g_dummy[1] = {0};
static const uint8_t *nn(const std::vector<uint8_t> &v) { return v.empty() ? g_dummy : v.data(); }

void verif_init() {
  coap_startup();
  coap_set_log_level(COAP_LOG_EMERG);
}

static int tok_class(size_t l) { return l < 13 ? 0 : l < 269 ? 1 : 2; }
static int hdr_class(uint32_t delta) { return delta < 13 ? 0 : delta < 269 ? 1 : 2; }

int verif_case(const uint8_t *tape, size_t tlen, Info *info) {
  Tape t(tape, tlen);
  ref::Framing f = (ref::Framing)t.pick({4, 2, 1});
  Model md;
  md.m.type = (uint8_t)t.range(0, 3);
  md.m.code = pm::gen_code(t, f != ref::F_UDP);
  md.m.mid = t.u16();
  // ---- start message (abstract) ----
  {
    size_t tl = t.pick({2, 3}) ? pm::gen_token_len(t, false) : 0;
    md.m.token = t.blob(tl);
    unsigned n = (unsigned)t.pick({1, 2, 3, 3, 2, 2, 1, 1});
    for (unsigned i = 0; i < n; i++) {
      uint32_t num = pm::gen_opt_num(t, md);
      if (pm::non_repeatable(num) && md.has(num)) continue;
      size_t len = pm::gen_val_len(t, num, true);
      if (len > 1200) len = 270;
      md.insert(num, t.blob(len));
    }
    if (t.pick({1, 2})) md.m.payload = t.blob(t.pick({3, 1}) ? t.range(1, 300) : t.range(1, 24));
  }
  bool parsed_start = t.flag();
  size_t slack_class = t.pick({5, 2, 2});
  size_t M = slack_class == 0 ? 0 : slack_class == 1 ? md.used() + t.range(0, 24) : md.used() + t.range(25, 2000);
  md.max_size = M;
  coap_pdu_t *pdu = nullptr;
  int verdict = HELD;
  unsigned ok_edits = 0;
  bool neighbour_change = false, tokclass_change = false;
#define FAIL_IF(c) do { if (c) { verdict = VIOLATION; goto done; } } while (0)
  if (parsed_start) {
    // as on the receive path: parse reference-encoded bytes
    std::vector<uint8_t> wire = ref::encode(md.m, f);
    if (!ref::decode(wire.data(), wire.size(), f, true).ok) parsed_start = false;  // outside the parser's length table
    else {
      pdu = coap_pdu_init((coap_pdu_type_t)0, (coap_pdu_code_t)0, 0, M);
      if (!pdu) return OUT_OF_DOMAIN;
      if (!coap_pdu_parse(lc::proto_of(f), wire.data(), wire.size(), pdu)) {
        info->fail("start: coap_pdu_parse rejected a reference-encoded message");
        FAIL_IF(1);
      }
      if (f != ref::F_UDP) { md.m.type = 0; md.m.mid = 0; }
      info->label("start:parsed");
    }
  }
  if (!parsed_start) {
    pdu = coap_pdu_init((coap_pdu_type_t)md.m.type, (coap_pdu_code_t)md.m.code, md.m.mid, M);
    if (!pdu) return OUT_OF_DOMAIN;
    bool okb = coap_add_token(pdu, md.m.token.size(), nn(md.m.token));
    for (auto &o : md.m.opts) {
      if (ref::is_request(md.m.code) && (o.num == 35 || o.num == 39)) { okb = false; break; }  // keep the start free of the Hop-Limit side effect
      okb = okb && coap_add_option_internal(pdu, (coap_option_num_t)o.num, o.val.size(), nn(o.val));
    }
    if (okb && !md.m.payload.empty()) okb = coap_add_data(pdu, md.m.payload.size(), md.m.payload.data());
    if (!okb) { coap_delete_pdu(pdu); return OUT_OF_DOMAIN; }
    info->label("start:built");
  }
  info->r("%s M=%zu start{%s};", f == ref::F_UDP ? "UDP" : f == ref::F_TCP ? "TCP" : "WS", M, lc::render(md.m).c_str());
  FAIL_IF(!pm::check_dump(pdu, md, true, info, "start"));
  {
    unsigned nedits = t.range(1, 12);
    if (t.chance(40)) nedits += t.range(10, 28);
    for (unsigned e = 0; e < nedits; e++) {
      int op = (int)t.pick({4, 3, 3, 2, 1});
      Model before = md;
      char what[96];
      if (op == 3) {
        size_t tl = pm::gen_token_len(t, M == 0);
        std::vector<uint8_t> tok = t.blob(tl);
        int r = coap_update_token(pdu, tl, nn(tok));
        snprintf(what, sizeof what, "coap_update_token(%zu)=%d", tl, r);
        info->r(" tok(%zu)=%d;", tl, r);
        Model after = md;
        after.m.token = tok;
        if (r) {
          if (tok_class(md.m.token.size()) != tok_class(tl)) tokclass_change = true;
          md = after;
          ok_edits++;
        } else if (M == 0 || after.used() <= M) {
          info->fail("%s refused although the result fits (%zu <= %zu)", what, after.used(), M);
          FAIL_IF(1);
        }
      } else {
        uint32_t num;
        bool existing = !md.m.opts.empty() && t.pick({1, 3});
        if ((op == 1 || op == 2) && existing) num = md.m.opts[t.range(0, (uint32_t)md.m.opts.size() - 1)].num;
        else num = pm::gen_opt_num(t, md);
        size_t len = pm::gen_val_len(t, num, t.pick({1, 3}) != 0);
        if (len > 1200 && M != 0) len = 269;
        std::vector<uint8_t> val = t.blob(len);
        int idx = md.first(num);
        if (op == 2) {
          int r = coap_remove_option(pdu, (coap_option_num_t)num);
          snprintf(what, sizeof what, "coap_remove_option(%u)=%d", num, r);
          info->r(" rm(%u)=%d;", num, r);
          if (idx < 0) {
            if (r) { info->fail("%s but the option is absent", what); FAIL_IF(1); }
          } else if (r) {
            if ((size_t)idx + 1 < md.m.opts.size()) {
              uint32_t prevn = idx ? md.m.opts[idx - 1].num : 0;
              uint32_t nextn = md.m.opts[idx + 1].num;
              if (hdr_class(nextn - num) != hdr_class(nextn - prevn)) neighbour_change = true;
            }
            md.m.opts.erase(md.m.opts.begin() + idx);
            ok_edits++;
          } else {
            // removal may need one spare byte when the follower's header grows; only then may it be refused
            if (M == 0 || md.used() + 1 <= M) { info->fail("%s although the option exists and there is room", what); FAIL_IF(1); }
          }
        } else if (op == 1 && idx >= 0) {
          size_t r = coap_update_option(pdu, (coap_option_num_t)num, len, nn(val));
          snprintf(what, sizeof what, "coap_update_option(%u,%zu)=%zu", num, len, r);
          info->r(" upd(%u,%zu)=%zu;", num, len, r);
          Model after = md;
          after.m.opts[idx].val = val;
          if (r) { md = after; ok_edits++; }
          else if (M == 0 || after.used() <= M) { info->fail("%s refused although the result fits", what); FAIL_IF(1); }
        } else {
          // insertion (coap_insert_option, coap_update_option of an absent number, coap_add_option_internal)
          size_t r;
          const char *nm;
          if (op == 1) { r = coap_update_option(pdu, (coap_option_num_t)num, len, nn(val)); nm = "coap_update_option(absent)"; }
          else if (op == 4) { r = coap_add_option_internal(pdu, (coap_option_num_t)num, len, nn(val)); nm = "coap_add_option_internal"; }
          else { r = coap_insert_option(pdu, (coap_option_num_t)num, len, nn(val)); nm = "coap_insert_option"; }
          snprintf(what, sizeof what, "%s(%u,%zu)=%zu", nm, num, len, r);
          info->r(" %s(%u,%zu)=%zu;", op == 1 ? "upd+" : op == 4 ? "addi" : "ins", num, len, r);
          bool via_add = op == 4 || num >= md.max_opt();
          bool rep_rule = via_add && num == md.max_opt() && pm::non_repeatable(num);
          if (via_add && ref::is_request(md.m.code) && (num == 35 || num == 39) && !md.has(16) && !rep_rule) {
            ref::Msg d = lc::dump(pdu);
            bool present = false;
            for (auto &o : d.opts) if (o.num == 16) present = true;
            if (present) { md.insert(16, std::vector<uint8_t>{0x10}); before = md; info->label("hop-limit-auto"); }
            else if (M == 0) { info->fail("Hop-Limit not inserted before Proxy option in a request"); FAIL_IF(1); }
          }
          uint32_t prev = 0;
          for (auto &o : md.m.opts) if (o.num <= num) prev = o.num;
          size_t conservative = md.used() + ref::opt_size(num - prev, len);
          if (r) {
            size_t pos = md.insert(num, val);
            if (pos + 1 < md.m.opts.size()) {
              uint32_t nextn = md.m.opts[pos + 1].num;
              if (hdr_class(nextn - prev) != hdr_class(nextn - num)) neighbour_change = true;
            }
            ok_edits++;
          } else if (!rep_rule && (M == 0 || conservative <= M)) {
            info->fail("%s refused although it fits (used %zu, max %zu)", what, md.used(), M);
            FAIL_IF(1);
          }
        }
      }
      FAIL_IF(!pm::check_dump(pdu, md, true, info, what));
      FAIL_IF(!pm::check_wire(pdu, md, f, info, what));
    }
  }
  info->nontrivial = ok_edits >= 3 && (neighbour_change || tokclass_change) && !md.m.payload.empty();
  if (neighbour_change) info->label("neighbour-header-resized");
  if (tokclass_change) info->label("token-class-changed");
  if (!md.m.payload.empty()) info->label("with-payload");
  if (M) info->label("bounded-size");
  {
    size_t hs = coap_pdu_encode_header(pdu, lc::proto_of(f));
    info->mixu(f);
    info->mixu(ok_edits);
    size_t n = hs + pdu->used_size;
    info->mix(pdu->token - hs, n > 4096 ? 4096 : n);
    info->mixu(n);
  }
done:
  if (pdu) coap_delete_pdu(pdu);
  return verdict;
}
