// C01 — wire codec round-trip for every API-built message on every transport.
// Build a message through the PDU-building API, mirror every call (according to its return value) in an
// abstract model, then: bytes == independent reference encoding, reference decoding == model,
// coap_pdu_parse of the bytes == model.
#include "pdumodel.h"
using namespace verif;
using pm::Model;

const char *verif_property_id = "C01";
const char *verif_rule =
    "tape -> (proto in UDP/DTLS/TCP/TLS/WS/WSS, type, code, mid, max PDU size in {unbounded, 4..64, 65..1500, <=70000}, "
    "token length class {0,1..8,9..12,13..15,14..268,269..271,270..1000,65802..65804}, 0..24 options "
    "(registered numbers, arbitrary 0..65535, numbers aimed at delta 12/13/14/268/269/270 to a neighbour, value lengths on "
    "both sides of 12/13, 268/269, 65535+269) added in tape order through coap_add_option / coap_insert_option / "
    "coap_add_option_internal / coap_add_optlist_pdu, payload (incl. lengths hitting the TCP 13/269/65805 totals and the max size) "
    "added at any point). Model follows each call's return value; a refusal must leave the accessor dump unchanged and is itself a "
    "violation when the option demonstrably fits and no repetition rule applies. Non-trivial = >=2 accepted options and at least one of: "
    "out-of-order insertion, extended delta/length, extended token, TCP length form >= 8 bit, a refused call, option added after payload; "
    "distinct = by serialised bytes + framing";
size_t verif_max_tape = 220;

// memcpy(dst, NULL, 0) inside libcoap is formally UB; real callers pass a valid pointer, so does the harness
static const uint8_t g_dummy[1] = {0};
static const uint8_t *nn(const std::vector<uint8_t> &v) { return v.empty() ? g_dummy : v.data(); }

void verif_init() {
  coap_startup();
  coap_set_log_level(COAP_LOG_EMERG);
}

int verif_case(const uint8_t *tape, size_t tlen, Info *info) {
  Tape t(tape, tlen);
  ref::Framing f = (ref::Framing)t.pick({3, 3, 2});
  bool reliable = f != ref::F_UDP;
  uint8_t type = (uint8_t)t.range(0, 3);
  uint8_t code = pm::gen_code(t, reliable);
  uint16_t mid = t.u16();
  size_t M;
  switch (t.pick({6, 2, 2, 1})) {
  case 0: M = 0; break;
  case 1: M = t.range(4, 64); break;
  case 2: M = t.range(65, 1500); break;
  default: M = t.range(1501, 70000); break;
  }
  Model md;
  md.max_size = M;
  md.m.type = type;
  md.m.code = code;
  md.m.mid = mid;
  bool datagram = true;  // the in-memory PDU keeps type/mid for every proto until the header is encoded
  coap_pdu_t *pdu = coap_pdu_init((coap_pdu_type_t)type, (coap_pdu_code_t)code, mid, M);
  if (!pdu) return OUT_OF_DOMAIN;
  int verdict = HELD;
  bool f_ooo = false, f_ext = false, f_exttok = false, f_refused = false, f_afterpay = false;
  unsigned accepted = 0;
#define FAIL_IF(c) do { if (c) { verdict = VIOLATION; goto done; } } while (0)

  info->r("%s M=%zu t=%u code=%u.%02u mid=%u;", f == ref::F_UDP ? "UDP" : f == ref::F_TCP ? "TCP" : "WS", M, type, code >> 5, code & 31, mid);
  // ---- token ----
  if (t.pick({1, 4}) == 1) {
    size_t tl = pm::gen_token_len(t, M == 0 || M > 66000);
    std::vector<uint8_t> tok = t.blob(tl);
    int r = coap_add_token(pdu, tl, nn(tok));
    info->r(" token(%zu)=%d;", tl, r);
    size_t need = tl + (tl < 13 ? 0 : tl < 269 ? 1 : 2);
    if (r) { md.m.token = tok; if (tl >= 13) f_exttok = true; }
    else {
      f_refused = true;
      if (M == 0 || need <= M) { info->fail("coap_add_token(%zu) refused although it fits (max %zu)", tl, M); FAIL_IF(1); }
    }
    FAIL_IF(!pm::check_dump(pdu, md, datagram, info, "after coap_add_token"));
  }
  {
    // ---- options and payload ----
    unsigned nopt = (unsigned)t.pick({1, 2, 3, 3, 3, 2, 2, 2, 1, 1, 1, 1, 1}) ;
    if (t.chance(24)) nopt += t.range(8, 14);
    unsigned pay_at = t.range(0, nopt);  // payload is added before option index pay_at (== nopt: at the end)
    bool want_payload = t.pick({1, 3}) == 1;
    for (unsigned i = 0; i <= nopt; i++) {
      if (i == pay_at && want_payload) {
        size_t body = md.used() - (md.m.token.size() + (md.m.token.size() < 13 ? 0 : md.m.token.size() < 269 ? 1 : 2));
        size_t pl;
        switch (t.pick({6, 1, 2, 2, 1})) {
        case 0: pl = t.range(1, 40); break;
        case 1: pl = 0; break;
        case 2: {  // aim at a TCP length-form threshold
          static const uint32_t TH[] = {12, 13, 14, 268, 269, 270, 65804, 65805, 65806};
          uint32_t target = t.choose(TH);
          if (target > 300 && !(M == 0 || M > 66000)) target = 269;
          pl = target > body + 1 ? target - body - 1 : 1;
          break;
        }
        case 3: {  // aim at the maximum size
          if (M && M > md.used() + 1) pl = M - md.used() - 1 + t.range(0, 2) - 1; else pl = t.range(1, 300);
          if (pl == 0) pl = 1;
          break;
        }
        default: pl = t.range(41, 1200); break;
        }
        std::vector<uint8_t> pay = t.blob(pl);
        int r;
        bool after = t.chance(64);
        if (after && pl) {
          uint8_t *dst = coap_add_data_after(pdu, pl);
          r = dst != nullptr;
          if (dst) memcpy(dst, pay.data(), pl);
        } else {
          r = coap_add_data(pdu, pl, nn(pay));
        }
        info->r(" data(%zu)=%d;", pl, r);
        if (r && pl) md.m.payload = pay;
        if (!r) {
          f_refused = true;
          if (M == 0 || md.used() + 1 + pl <= M) { info->fail("coap_add_data(%zu) refused although it fits (used %zu, max %zu)", pl, md.used(), M); FAIL_IF(1); }
        }
        FAIL_IF(!pm::check_dump(pdu, md, datagram, info, "after coap_add_data"));
      }
      if (i == nopt) break;
      bool have_payload = !md.m.payload.empty();
      // optlist batch (only when nothing can make it fail half way: unbounded size, no payload yet)
      if (!have_payload && M == 0 && t.chance(24)) {
        coap_optlist_t *chain = nullptr;
        unsigned k = t.range(1, 5);
        std::vector<ref::Opt> batch;
        for (unsigned j = 0; j < k; j++) {
          uint32_t num = pm::gen_opt_num(t, md);
          if (pm::non_repeatable(num) || num == 35 || num == 39) num = 11;
          size_t len = pm::gen_val_len(t, num, true);
          if (len > 2000) len = 13;
          std::vector<uint8_t> v = t.blob(len);
          coap_optlist_t *e = coap_new_optlist((uint16_t)num, len, nn(v));
          if (!e) continue;
          coap_insert_optlist(&chain, e);
          batch.push_back(ref::Opt{num, v});
        }
        int r = coap_add_optlist_pdu(pdu, &chain);
        coap_delete_optlist(chain);
        info->r(" optlist(%zu)=%d;", batch.size(), r);
        if (!r && !batch.empty()) { info->fail("coap_add_optlist_pdu refused a batch that fits"); FAIL_IF(1); }
        // coap_add_optlist_pdu sorts the chain by number (stable) and adds it
        std::stable_sort(batch.begin(), batch.end(), [](const ref::Opt &a, const ref::Opt &b) { return a.num < b.num; });
        for (auto &o : batch) { if (o.num < md.max_opt()) f_ooo = true; md.insert(o.num, o.val); accepted++; }
        FAIL_IF(!pm::check_dump(pdu, md, datagram, info, "after coap_add_optlist_pdu"));
        continue;
      }
      uint32_t num = pm::gen_opt_num(t, md);
      size_t len = pm::gen_val_len(t, num, !t.chance(40));
      if (len > 2000 && !(M == 0 || M > 66000)) len = 269;
      std::vector<uint8_t> val = t.blob(len);
      int api = have_payload ? (int)t.pick({1, 2, 2}) : (int)t.pick({8, 1, 1});
      size_t r;
      uint32_t prev = 0;
      for (auto &o : md.m.opts) if (o.num <= num) prev = o.num;
      size_t conservative = md.used() + ref::opt_size(num - prev, len);
      bool rep_rule = num == md.max_opt() && pm::non_repeatable(num);
      bool hop_expected = api != 1 && ref::is_request(code) && (num == 35 || num == 39) && !md.has(16) && !rep_rule && !(api == 0 && have_payload);
      // (coap_insert_option below max_opt does not go through the Hop-Limit logic; at/above max_opt it calls coap_add_option_internal)
      if (api == 1 && num >= md.max_opt() && ref::is_request(code) && (num == 35 || num == 39) && !md.has(16) && !rep_rule) hop_expected = true;
      if (api == 0) r = coap_add_option(pdu, (coap_option_num_t)num, len, nn(val));
      else if (api == 1) r = coap_insert_option(pdu, (coap_option_num_t)num, len, nn(val));
      else r = coap_add_option_internal(pdu, (coap_option_num_t)num, len, nn(val));
      info->r(" %s(%u,%zu)=%zu;", api == 0 ? "add" : api == 1 ? "ins" : "addi", num, len, r);
      if (api == 0 && have_payload) {
        if (r) { info->fail("coap_add_option accepted an option although payload is present"); FAIL_IF(1); }
        f_refused = true;
        FAIL_IF(!pm::check_dump(pdu, md, datagram, info, "after refused coap_add_option (payload present)"));
        continue;
      }
      if (hop_expected) {
        // RFC 8768: libcoap inserts Hop-Limit (value 16) before the first Proxy-Uri/Proxy-Scheme of a request
        ref::Msg d = lc::dump(pdu);
        bool present = false;
        for (auto &o : d.opts) if (o.num == 16) present = true;
        if (present) {
          md.insert(16, std::vector<uint8_t>{0x10});
          info->label("hop-limit-auto");
          prev = 0;
          for (auto &o : md.m.opts) if (o.num <= num) prev = o.num;
          conservative = md.used() + ref::opt_size(num - prev, len);
        }
        else if (M == 0) { info->fail("Hop-Limit was not inserted before Proxy option in a request"); FAIL_IF(1); }
      }
      if (r) {
        if (num < md.max_opt()) f_ooo = true;
        if (have_payload) f_afterpay = true;
        md.insert(num, val);
        accepted++;
      } else {
        f_refused = true;
        if (!rep_rule && (M == 0 || conservative <= M)) {
          info->fail("option (%u, len %zu) refused although it fits (used %zu, max %zu) and no repetition rule applies", num, len, md.used(), M);
          FAIL_IF(1);
        }
      }
      FAIL_IF(!pm::check_dump(pdu, md, datagram, info, r ? "after accepted option" : "after refused option"));
    }
  }
  for (size_t i = 0; i < md.m.opts.size(); i++) {
    uint32_t d = md.m.opts[i].num - (i ? md.m.opts[i - 1].num : 0);
    if (d >= 13 || md.m.opts[i].val.size() >= 13) f_ext = true;
  }
  {
    size_t body = md.used() - (md.m.token.size() + (md.m.token.size() < 13 ? 0 : md.m.token.size() < 269 ? 1 : 2));
    bool tcpform = f == ref::F_TCP && body >= 13;
    if (f == ref::F_TCP) info->label(body < 13 ? "tcp-len0" : body < 269 ? "tcp-len8" : body < 65805 ? "tcp-len16" : "tcp-len32");
    info->nontrivial = accepted >= 2 && (f_ooo || f_ext || f_exttok || tcpform || f_refused || f_afterpay);
    if (f_ooo) info->label("out-of-order");
    if (f_ext) info->label("ext-delta-or-len");
    if (f_exttok) info->label("ext-token");
    if (f_refused) info->label("refused-call");
    if (f_afterpay) info->label("option-after-payload");
    info->label(f == ref::F_UDP ? "udp" : f == ref::F_TCP ? "tcp" : "ws");
  }
  // ---- wire checks for the chosen framing (and, cheaply, the secure twin which must be identical) ----
  FAIL_IF(!pm::check_wire(pdu, md, f, info, "final"));
  {
    size_t hs = pdu->hdr_size;
    std::vector<uint8_t> first(pdu->token - hs, pdu->token + pdu->used_size);
    size_t hs2 = coap_pdu_encode_header(pdu, lc::proto_of(f, true));
    if (hs2 != hs || memcmp(first.data(), pdu->token - hs2, hs2 + pdu->used_size) != 0) {
      info->fail("secure twin of the transport serialises differently");
      FAIL_IF(1);
    }
    info->mixu(f);
    info->mix(first.data(), first.size() > 4096 ? 4096 : first.size());
    info->mixu(first.size());
  }
done:
  coap_delete_pdu(pdu);
  return verdict;
}
