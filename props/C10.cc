// C10 — the server answers each request datagram once, with the protocol-prescribed code.
// Reference-encoded requests from scripted peers into a libcoap server with a generated resource table;
// oracle = executable decision table (set of admissible outcomes) + handler log.
#include "../sim/helpers.h"
#include <algorithm>
#include <cstring>
#include "../ref/refuri.h"
using namespace verif;
using namespace sim;

const char *verif_property_id = "C10";
const char *verif_rule =
    "tape -> server configuration (0..5 resources with generated paths incl. bytes needing escapes, nested and empty segments, handler subsets per method, "
    "OSCORE-only flag, per-resource multicast flags; optional unknown-resource handler with/without HANDLE_WELLKNOWN_CORE; optional proxy resource with host list; "
    "mcast_per_resource on/off; extra registered critical option) and 1..4 requests, each from a fresh peer: type CON/NON/ACK/RST, code from {0.01..0.07, 0.08..0.31, "
    "classes 1,3,6,7, 0.00}, token 0..8 (rarely 9..12), Uri-Path matching a resource / unknown / .well-known/core, Uri-Query, unknown critical / elective / unsafe options, "
    "illegally repeated options, If-None-Match, Content-Format, Proxy-Uri / Proxy-Scheme (+Uri-Host), Hop-Limit 0/1/2/255, No-Response bitmaps, Block2 with M set, payload; "
    "unicast or multicast destination. Oracle: set of admissible outcomes from the rules the statement lists (every applicable rule admissible, no precedence imposed), "
    "then No-Response / multicast suppression; checks: <= 1 datagram per request, NON never ACKed, token echoed unless Empty, CON mid echoed, reply in the admissible set; "
    "handler outcome <=> exactly one invocation of the handler registered for that path+method which saw the sent path, query, options and payload, and what it set is on the wire. "
    "Non-trivial = request passed the header checks and a rule other than plain 2.05 decided it; distinct = by configuration + request bytes";
size_t verif_max_tape = 360;

namespace {

struct HandlerPlan { uint8_t code; std::vector<uint8_t> payload; bool add_cf; };
struct ResDef {
  std::vector<std::string> segs;
  std::string path;            // joined, escaped as libcoap's lookup key (from our own encoder of segments)
  uint8_t methods = 0;         // bit m-1 set => handler for method m (1..7)
  bool osc_only = false;
  int flags = 0;
  coap_resource_t *r = nullptr;
};
struct Invocation { int res; uint8_t method; std::string path, query; std::vector<ref::Opt> opts; std::vector<uint8_t> payload; };

struct Case {
  World *w = nullptr;
  std::vector<ResDef> res;       // index 0.. real resources
  bool have_unknown = false, unknown_wk = false;
  uint8_t unknown_methods = 0;
  bool have_proxy = false;
  uint8_t proxy_methods = 0;
  std::vector<std::string> proxy_hosts;
  bool mcast_per_resource = false;
  bool reg_option = false;       // option 65001 registered as known
  HandlerPlan plan;
  std::vector<Invocation> log;
  coap_resource_t *unknown_r = nullptr, *proxy_r = nullptr;
} *G = nullptr;

const int RES_UNKNOWN = -1, RES_PROXY = -2;

void handler(coap_resource_t *resource, coap_session_t *, const coap_pdu_t *request, const coap_string_t *query, coap_pdu_t *response) {
  Invocation inv;
  inv.res = -9;
  if (resource == G->unknown_r) inv.res = RES_UNKNOWN;
  else if (resource == G->proxy_r) inv.res = RES_PROXY;
  else for (size_t i = 0; i < G->res.size(); i++) if (G->res[i].r == resource) inv.res = (int)i;
  inv.method = (uint8_t)coap_pdu_get_code(request);
  coap_string_t *p = coap_get_uri_path(request);
  if (p) { inv.path.assign((const char *)p->s, p->length); coap_delete_string(p); }
  if (query) inv.query.assign((const char *)query->s, query->length);
  ref::Msg m = lc::dump(request);
  inv.opts = m.opts;
  inv.payload = m.payload;
  G->log.push_back(inv);
  G->w->callback("HANDLER res=" + std::to_string(inv.res) + " method=" + std::to_string(inv.method));
  if (G->plan.code) {
    coap_pdu_set_code(response, (coap_pdu_code_t)G->plan.code);
    if (G->plan.add_cf) { uint8_t cf = 42; coap_add_option(response, COAP_OPTION_CONTENT_FORMAT, 1, &cf); }
    if (!G->plan.payload.empty()) coap_add_data(response, G->plan.payload.size(), G->plan.payload.data());
  }
}

// escaping used by libcoap's lookup key (RFC 7252 6.5 step 6: unreserved, sub-delims, ':' '@' literal)
std::string esc_path_seg(const std::string &s) {
  static const char *ok = "-._~!$'()*+,;=:@&";
  std::string o;
  for (unsigned char c : s) {
    if ((c >= 'A' && c <= 'Z') || (c >= 'a' && c <= 'z') || (c >= '0' && c <= '9') || (c != 0 && strchr(ok, c))) o += (char)c;
    else { char b[4]; snprintf(b, sizeof b, "%%%02X", c); o += b; }
  }
  return o;
}
std::string join_path(const std::vector<std::string> &segs) {
  std::string o;
  for (size_t i = 0; i < segs.size(); i++) { if (i) o += "/"; o += esc_path_seg(segs[i]); }
  return o;
}

std::string gen_seg(Tape &t) {
  static const char AL[] = "abcxyz019-_.~%/&?# =+";
  std::string s;
  unsigned n = (unsigned)t.pick({1, 5, 4, 2, 1});
  for (unsigned i = 0; i < n; i++) s += t.chance(16) ? (char)t.u8() : AL[t.range(0, sizeof(AL) - 2)];
  if (s == "." || s == "..") s = "d";
  return s;
}

enum OutKind { O_NONE, O_RST, O_EMPTY_ACK, O_RESPONSE, O_HANDLER };
struct Outcome { OutKind kind; uint8_t code; int handler_res; int flags_res = -9; /* resource whose multicast flags govern suppression: -9 none, -1 unknown, -3 well-known, >=0 index */ };

struct Request {
  ref::Msg m;
  bool mcast = false;
  std::vector<std::string> path_segs;
  bool have_path = false;
  mutable bool served_locally = false;  // set by admissible(): proxy request that names this server
};

bool nonrep(uint32_t n) {
  switch (n) { case 3: case 5: case 6: case 7: case 9: case 12: case 14: case 16: case 17: case 23: case 27: case 28: case 35: case 39: case 60: case 252: case 258: return true; default: return false; }
}

// executable reading of the rules in the property statement (DESIGN.md appendix A documents the order used by the code)
std::vector<Outcome> admissible(const Case &cs, const Request &rq, Info *info) {
  std::vector<Outcome> out;
  const ref::Msg &m = rq.m;
  uint8_t cls = m.code >> 5;
  bool con = m.type == 0, non = m.type == 1;
  auto push = [&](OutKind k, uint8_t code = 0, int hr = -9) { out.push_back(Outcome{k, code, hr}); };
  if (m.type >= 2) { push(O_NONE); info->label("rule:type-ack-or-rst"); return out; }   // ACK / RST carrying anything: never answered
  if (m.code == 0) {
    // CoAP ping (Empty CON) => RST; an Empty NON is not a defined message: silently ignored or rejected with RST (RFC 7252 4.3)
    if (rq.mcast) { push(O_NONE); info->label("rule:empty-message"); return out; }  // never a reply to a multicast Empty message
    push(con ? O_RST : O_NONE);
    if (non) push(O_RST);
    info->label("rule:empty-message");
    return out;
  }
  if (cls == 1 || cls == 6 || cls == 7) { push(con ? O_RST : O_NONE); info->label("rule:invalid-code-class"); return out; }
  if (cls != 0) {
    // a response code arriving at a server: not a request; anything but a handler call / error response is tolerated
    push(O_NONE, 0, -7); push(O_RST, 0, -7); push(O_EMPTY_ACK, 0, -7);
    info->label("rule:response-code-at-server");
    return out;
  }
  // ---- request ----
  bool has_proxy_opt = ref::is_request(m.code) && (simh::find_opt(m, 35) || simh::find_opt(m, 39));
  bool crit_unknown = false, illegal_rep = false;
  uint32_t last = 0xffffffff;
  for (auto &o : m.opts) {
    if (o.num & 1) {
      bool known = false;
      switch (o.num) { case 1: case 3: case 5: case 7: case 11: case 15: case 17: case 35: case 39: case 23: case 27: known = true; break; default: break; }
      if (o.num == 65001 && cs.reg_option) known = true;
      if (!known) {
        // safe-to-forward critical options pass when the request is for the proxy and a proxy resource exists
        if (!(o.num & 2) && cs.have_proxy && has_proxy_opt) { /* forwarded */ } else crit_unknown = true;
      }
    }
    if (o.num == last && nonrep(o.num)) illegal_rep = true;
    last = o.num;
  }
  if (crit_unknown || illegal_rep) { push(con ? O_RESPONSE : O_RST, 0x82, -8); info->label(crit_unknown ? "rule:unknown-critical(4.02/RST)" : "rule:illegal-repeat(4.02/RST)"); }
  if (m.token.size() > 8) { push(O_RST, 0, -8); info->label("rule:token-too-long"); }
  if (rq.mcast && con) { push(O_NONE); info->label("rule:mcast-con-ignored"); return out; }
  if (!out.empty()) return out;  // these are decided before the request is looked at (coap_dispatch)
  const ref::Opt *ps = simh::find_opt(m, 39), *pu = simh::find_opt(m, 35), *uh = simh::find_opt(m, 3);
  bool proxy_req = false, local_proxy_uri = false, served_locally = false;
  std::string local_path;
  if (ps && !uh) { push(O_RESPONSE, 0x82); info->label("rule:proxy-scheme-without-host(4.02)"); }
  if (ps || pu) {
    bool unsupported = !cs.have_proxy || (m.code >= 1 && m.code <= 7 && !(cs.proxy_methods & (1 << (m.code - 1))));
    std::string host;
    if (pu) {
      refuri::Parts parts;
      if (refuri::split(std::string(pu->val.begin(), pu->val.end()), true, &parts) != 0) unsupported = true;
      else host = parts.host;
    } else if (uh) host.assign(uh->val.begin(), uh->val.end());
    if (unsupported) { push(O_RESPONSE, 0xa5); info->label("rule:proxy-unsupported(5.05)"); }
    else {
      proxy_req = true;
      // the proxy resource may name this server itself: then the request is handled locally
      bool local = false;
      if (!host.empty() && !cs.proxy_hosts.empty()) {
        if (cs.proxy_hosts.size() == 1 && cs.proxy_hosts[0].empty()) local = true;
        for (auto &h : cs.proxy_hosts) if (h == host) local = true;
      }
      if (local) proxy_req = false;
      if (local) {
        served_locally = true;
        rq.served_locally = true;
        info->label("proxy-names-this-server");
        bool fwd_crit = false;
        for (auto &o : m.opts) if ((o.num & 1) && !(o.num & 2)) {
          bool known = false;
          switch (o.num) { case 1: case 3: case 5: case 7: case 11: case 15: case 17: case 35: case 39: case 23: case 27: known = true; break; default: break; }
          if (o.num == 65001 && cs.reg_option) known = true;
          if (!known) fwd_crit = true;
        }
        if (fwd_crit) { push(O_RESPONSE, 0x82); info->label("rule:unknown-critical-on-local-proxy(4.02)"); return out; }
        local_proxy_uri = pu != nullptr;
        if (pu) { refuri::Parts parts; refuri::split(std::string(pu->val.begin(), pu->val.end()), true, &parts); local_path = parts.path; }
      }
    }
  }
  // (a proxy request that names this server is served locally: it is not forwarded, Hop-Limit does not apply)
  if (const ref::Opt *hl = served_locally ? nullptr : simh::find_opt(m, 16)) {
    uint32_t v = simh::opt_uint(hl->val);
    if (v == 1) { push(O_RESPONSE, 0xa8); info->label("rule:hop-limit-1(5.08)"); }
    else if (v == 0) { push(O_RESPONSE, 0x80); info->label("rule:hop-limit-0(4.00)"); }
  }
  // resource lookup
  std::string key = join_path(rq.path_segs);
  if (rq.path_segs.size() == 1 && rq.path_segs[0].empty()) key = "";
  if (local_proxy_uri) key = local_path;  // the path text of the Proxy-Uri is used as it stands
  int found = -9;
  bool wellknown = false;
  if (proxy_req) found = RES_PROXY;
  else {
    for (size_t i = 0; i < cs.res.size(); i++) if (cs.res[i].path == key) found = (int)i;
    if (found == -9) {
      bool unk_method = cs.have_unknown && m.code >= 1 && m.code <= 7 && (cs.unknown_methods & (1 << (m.code - 1)));
      if (cs.unknown_wk && unk_method) found = RES_UNKNOWN;
      else if (key == ".well-known/core") wellknown = true;
      else if (unk_method) found = RES_UNKNOWN;
      else { push(O_RESPONSE, m.code == 4 ? 0x42 : 0x84); info->label(m.code == 4 ? "rule:not-found-delete(2.02)" : "rule:not-found(4.04)"); }
    }
  }
  size_t before_lookup = out.size();
  if (found != -9 || wellknown) {
    uint8_t methods = wellknown ? 1 : found == RES_UNKNOWN ? cs.unknown_methods : found == RES_PROXY ? cs.proxy_methods : cs.res[found].methods;
    if (found >= 0 && cs.res[found].osc_only) { push(O_RESPONSE, 0x81); info->label("rule:oscore-only(4.01)"); }
    if ((found >= 0 || wellknown) && simh::find_opt(m, 5)) { push(O_RESPONSE, 0x8c); info->label("rule:if-none-match(4.12)"); }
    bool has_method = m.code >= 1 && m.code <= 7 && (methods & (1 << (m.code - 1)));
    if (!has_method) { push(O_RESPONSE, 0x85); info->label("rule:no-method-handler(4.05)"); }
    else if (m.code == 5 && !simh::find_opt(m, 12)) { push(O_RESPONSE, 0x8f); info->label("rule:fetch-without-content-format(4.15)"); }
    else if (cs.mcast_per_resource && rq.mcast && found >= 0 && !(cs.res[found].flags & COAP_RESOURCE_FLAGS_HAS_MCAST_SUPPORT)) { push(O_RESPONSE, 0x85); info->label("rule:mcast-not-supported-by-resource(4.05)"); }
    else if (cs.mcast_per_resource && rq.mcast && (found < 0)) { if (!wellknown) { push(O_RESPONSE, 0x85); } if (out.empty()) push(O_HANDLER, 0, wellknown ? -3 : found); }
    else if (out.empty()) push(O_HANDLER, 0, wellknown ? -3 : found);
    for (size_t i = before_lookup; i < out.size(); i++) out[i].flags_res = wellknown ? -3 : found == RES_PROXY ? -2 : found;
  }
  return out;
}

}  // namespace

void verif_init() {
  coap_startup();
  coap_set_log_level(COAP_LOG_EMERG);
}

int verif_case(const uint8_t *tape, size_t tlen, Info *info) {
  Tape t(tape, tlen);
  Case cs;
  G = &cs;
  World w;
  cs.w = &w;
  seed_prng(t.u16());
  coap_context_t *ctx = coap_new_context(nullptr);
  if (!ctx) return OUT_OF_DOMAIN;
  Addr srv = Addr::v4(10, 0, 0, 1, 5683);
  Addr grp = Addr::v4(224, 0, 1, 187, 5683);
  {
    coap_address_t la;
    Addr any = Addr::v4(0, 0, 0, 0, 5683);
    any.to_coap(&la);
    if (!coap_new_endpoint(ctx, &la, COAP_PROTO_UDP)) { coap_free_context(ctx); return OUT_OF_DOMAIN; }
  }
  w.add_context(ctx);
  // ---- configuration ----
  cs.mcast_per_resource = t.chance(48);
  if (cs.mcast_per_resource) coap_mcast_per_resource(ctx);
  cs.reg_option = t.chance(48);
  if (cs.reg_option) coap_register_option(ctx, 65001);
  unsigned nres = (unsigned)t.pick({1, 3, 3, 2, 1, 1});
  std::vector<std::unique_ptr<std::string>> keep;
  for (unsigned i = 0; i < nres; i++) {
    ResDef rd;
    unsigned ns = (unsigned)t.pick({1, 5, 3, 1});
    for (unsigned k = 0; k < ns; k++) rd.segs.push_back(gen_seg(t));
    rd.path = join_path(rd.segs);
    if (rd.segs.size() == 1 && rd.segs[0].empty()) rd.path = "";
    bool dup = rd.path == ".well-known/core";
    for (auto &o : cs.res) if (o.path == rd.path) dup = true;
    if (dup) continue;
    rd.methods = t.pick({3, 1}) ? (uint8_t)(t.u8() & 0x7f) : 0x01;
    rd.osc_only = t.chance(12);
    if (cs.mcast_per_resource) {
      static const int FL[] = {0, COAP_RESOURCE_FLAGS_HAS_MCAST_SUPPORT, COAP_RESOURCE_FLAGS_HAS_MCAST_SUPPORT | COAP_RESOURCE_FLAGS_LIB_DIS_MCAST_SUPPRESS_4_XX,
                               COAP_RESOURCE_FLAGS_HAS_MCAST_SUPPORT | COAP_RESOURCE_FLAGS_LIB_ENA_MCAST_SUPPRESS_2_XX,
                               COAP_RESOURCE_FLAGS_HAS_MCAST_SUPPORT | COAP_RESOURCE_FLAGS_LIB_ENA_MCAST_SUPPRESS_2_05 | COAP_RESOURCE_FLAGS_LIB_DIS_MCAST_SUPPRESS_5_XX};
      rd.flags = t.choose(FL);
    }
    keep.emplace_back(new std::string(rd.path));
    coap_str_const_t sc = {keep.back()->size(), (const uint8_t *)keep.back()->data()};
    rd.r = coap_resource_init(&sc, rd.flags | (rd.osc_only ? COAP_RESOURCE_FLAGS_OSCORE_ONLY : 0));
    if (!rd.r) continue;
    for (int mth = 1; mth <= 7; mth++) if (rd.methods & (1 << (mth - 1))) coap_register_handler(rd.r, (coap_request_t)mth, handler);
    coap_add_resource(ctx, rd.r);
    cs.res.push_back(rd);
  }
  if (t.chance(64)) {
    cs.have_unknown = true;
    cs.unknown_wk = t.chance(80);
    cs.unknown_methods = t.pick({1, 1}) ? (uint8_t)(t.u8() & 0x7f) : 0x04;
    cs.unknown_methods |= 0x04;  // coap_resource_unknown_init registers the PUT handler
    cs.unknown_r = coap_resource_unknown_init2(handler, cs.unknown_wk ? COAP_RESOURCE_HANDLE_WELLKNOWN_CORE : 0);
    if (!cs.unknown_r) { coap_free_context(ctx); G = nullptr; return OUT_OF_DOMAIN; }
    for (int mth = 1; mth <= 7; mth++) if (cs.unknown_methods & (1 << (mth - 1))) coap_register_handler(cs.unknown_r, (coap_request_t)mth, handler);
    coap_add_resource(ctx, cs.unknown_r);
  }
  std::vector<const char *> hostptrs;
  if (t.chance(64)) {
    cs.have_proxy = true;
    static const char *HOSTS[] = {"me.example", "10.0.0.1", ""};
    unsigned nh = (unsigned)t.pick({2, 1}) + 1;
    for (unsigned i = 0; i < nh; i++) cs.proxy_hosts.push_back(HOSTS[i == 0 && nh == 1 && t.chance(64) ? 2 : i]);
    for (auto &h : cs.proxy_hosts) hostptrs.push_back(h.c_str());
    cs.proxy_r = coap_resource_proxy_uri_init2(handler, hostptrs.size(), hostptrs.empty() ? nullptr : hostptrs.data(), 0);
    if (!cs.proxy_r) { coap_free_context(ctx); G = nullptr; return OUT_OF_DOMAIN; }
    cs.proxy_methods = 0x7f;  // coap_resource_proxy_uri_init registers the handler for every method
    if (t.chance(64)) { uint8_t drop = (uint8_t)(1 << t.range(0, 6)); cs.proxy_methods &= (uint8_t)~drop; for (int mth = 1; mth <= 7; mth++) if (drop & (1 << (mth - 1))) coap_register_handler(cs.proxy_r, (coap_request_t)mth, nullptr); }
    coap_add_resource(ctx, cs.proxy_r);
  }
  std::string cfg = "cfg{";
  for (auto &r : cs.res) { char b[96]; snprintf(b, sizeof b, "</%s>m=%02x%s f=%x ", r.path.c_str(), r.methods, r.osc_only ? " osc" : "", r.flags); cfg += b; }
  { char b[160]; snprintf(b, sizeof b, "unknown=%d(wk=%d,m=%02x) proxy=%d(m=%02x,hosts=%zu) mcpr=%d reg65001=%d}", cs.have_unknown, cs.unknown_wk, cs.unknown_methods, cs.have_proxy, cs.proxy_methods, cs.proxy_hosts.size(), cs.mcast_per_resource, cs.reg_option); cfg += b; }
  info->rs(cfg);
  info->mix(cfg.data(), cfg.size());

  int verdict = HELD;
  unsigned nreq = (unsigned)t.pick({3, 3, 2, 1}) + 1;
  std::vector<uint8_t> rev(tape, tape + tlen);
  std::reverse(rev.begin(), rev.end());
  Tape tb(rev.data(), rev.size());
  for (unsigned qi = 0; qi < nreq && verdict == HELD; qi++) {
    Request rq;
    ref::Msg &m = rq.m;
    m.type = (uint8_t)t.pick({8, 6, 1, 1});
    switch (t.pick({12, 2, 1, 1, 1})) {
    case 0: m.code = (uint8_t)t.range(1, 7); break;
    case 1: m.code = (uint8_t)t.range(8, 31); break;
    case 2: m.code = 0; break;
    case 3: { static const uint8_t C[] = {0x20, 0x3f, 0x60, 0x7f, 0xc0, 0xdf, 0xe1, 0xe2, 0xff}; m.code = t.choose(C); break; }
    default: { static const uint8_t C[] = {0x45, 0x84, 0xa0}; m.code = t.choose(C); break; }
    }
    m.mid = (uint16_t)(0x1000 + qi * 7 + (t.u8() & 3));
    rq.mcast = t.chance(40);
    if (m.code != 0) {
      unsigned tl = (unsigned)t.pick({2, 1, 2, 1, 3, 1, 1, 1, 3});
      if (t.chance(6)) tl = t.range(9, 12);
      m.token = t.vec(tl);
      // path
      switch (t.pick({6, 3, 2, 1})) {
      case 0: if (!cs.res.empty()) { rq.path_segs = cs.res[t.range(0, (uint32_t)cs.res.size() - 1)].segs; rq.have_path = true; break; }  // fallthrough
      case 1: { unsigned ns = (unsigned)t.pick({1, 4, 2}); for (unsigned k = 0; k < ns; k++) rq.path_segs.push_back(gen_seg(t)); rq.have_path = ns > 0; break; }
      case 2: rq.path_segs = {".well-known", "core"}; rq.have_path = true; break;
      default: break;
      }
      std::vector<ref::Opt> opts;
      for (auto &sg : rq.path_segs) opts.push_back(ref::Opt{11, std::vector<uint8_t>(sg.begin(), sg.end())});
      // further Uri-Query options in front (read from the END of the tape so that earlier tapes keep their meaning): empty arguments in
      // any position, single characters, bytes that need percent-encoding.  Not for /.well-known/core, whose built-in handler interprets
      // the query as a filter (C20's subject)
      if (!(rq.path_segs.size() == 2 && rq.path_segs[0] == ".well-known") && tb.chance(72)) {
        unsigned nq = tb.range(1, 3);
        for (unsigned k = 0; k < nq; k++) {
          switch (tb.pick({3, 2, 2, 3})) {
          case 0: opts.push_back(ref::Opt{15, {}}); break;
          case 1: opts.push_back(ref::Opt{15, {'k'}}); break;
          case 2: opts.push_back(ref::Opt{15, {'x', '=', '1'}}); break;
          default: opts.push_back(ref::Opt{15, tb.vec(tb.range(1, 3))}); break;
          }
        }
        info->label("extra-uri-query-options");
      }
      if (t.chance(48)) opts.push_back(ref::Opt{15, {'a', '=', '1'}});
      if (t.chance(24)) opts.push_back(ref::Opt{15, {'b', '&', '%'}});
      if (t.chance(20)) opts.push_back(ref::Opt{t.choose((const uint32_t[]){65001, 65003, 2049, 65005}), t.vec(t.range(0, 3))});  // critical (65003/… unsafe too)
      if (t.chance(20)) opts.push_back(ref::Opt{t.choose((const uint32_t[]){65000, 65002, 2050}), t.vec(t.range(0, 3))});      // elective
      if (t.chance(16)) { uint32_t n = t.choose((const uint32_t[]){12, 17, 60, 14, 7}); opts.push_back(ref::Opt{n, {1}}); opts.push_back(ref::Opt{n, {2}}); }   // illegal repetition
      if (t.chance(12)) { opts.push_back(ref::Opt{4, {1}}); opts.push_back(ref::Opt{4, {2}}); }  // legal repetition (ETag)
      if (t.chance(24)) opts.push_back(ref::Opt{5, {}});
      if (t.chance(40)) opts.push_back(ref::Opt{12, {42}});
      if (t.chance(24)) {
        switch (t.pick({2, 2, 1, 1})) {
        case 0: {
          static const char *U[] = {"coap://other.example/x/y", "coap://me.example/a", "coap://10.0.0.1/abc", "coap://other.example:x/bad", "http://web.example/", "coap://me.example"};
          std::string u = U[t.range(0, 5)];
          // RFC 7252 5.10.2: Proxy-Uri must not be combined with Uri-Host/Port/Path/Query
          opts.erase(std::remove_if(opts.begin(), opts.end(), [](const ref::Opt &o) { return o.num == 3 || o.num == 7 || o.num == 11 || o.num == 15; }), opts.end());
          rq.path_segs.clear();
          opts.push_back(ref::Opt{35, std::vector<uint8_t>(u.begin(), u.end())});
          break;
        }
        case 1: { opts.push_back(ref::Opt{39, {'c', 'o', 'a', 'p'}}); std::string h = t.flag() ? "other.example" : "me.example"; opts.push_back(ref::Opt{3, std::vector<uint8_t>(h.begin(), h.end())}); break; }
        case 2: opts.push_back(ref::Opt{39, {'c', 'o', 'a', 'p'}}); break;
        default: opts.push_back(ref::Opt{3, {'m', 'e', '.', 'e', 'x', 'a', 'm', 'p', 'l', 'e'}}); break;
        }
      }
      if (t.chance(24)) opts.push_back(ref::Opt{16, {t.choose((const uint8_t[]){0, 1, 2, 255, 16})}});
      if (t.chance(32)) opts.push_back(ref::Opt{258, t.flag() ? std::vector<uint8_t>{t.choose((const uint8_t[]){2, 8, 16, 24, 26, 127, 1})} : std::vector<uint8_t>{}});
      if (t.chance(16)) opts.push_back(ref::Opt{23, {(uint8_t)(0x08 | t.range(0, 6))}});  // Block2 NUM 0, M set
      std::stable_sort(opts.begin(), opts.end(), [](const ref::Opt &a, const ref::Opt &b) { return a.num < b.num; });
      m.opts = opts;
      if (t.chance(40)) m.payload = t.vec(t.range(1, 12));
    }
    std::vector<uint8_t> wire = ref::encode(m, ref::F_UDP);
    if (!ref::decode(wire.data(), wire.size(), ref::F_UDP, true).ok) { info->label("skipped:not-well-formed"); continue; }
    Addr peer_addr = Addr::v4(10, 0, 2, (uint8_t)(qi + 1), (uint16_t)(50000 + qi));
    Peer *peer = w.add_peer(peer_addr);
    peer->on_rx = [](World &ww, Peer &p, const Datagram &d) {
      ref::Msg r;
      if (simh::parse(d.data, &r) && r.type == 0) ww.peer_send(&p, d.src, simh::ack(r.mid));  // acknowledge separate responses
    };
    cs.plan.code = t.pick({5, 2, 1, 1}) == 0 ? 0x45 : t.choose((const uint8_t[]){0x44, 0x41, 0x84, 0xa0, 0});
    if (t.chance(32)) cs.plan.code = 0;
    cs.plan.payload = cs.plan.code ? t.vec(t.range(0, 20)) : std::vector<uint8_t>();
    cs.plan.add_cf = cs.plan.code && t.flag();
    cs.log.clear();
    size_t trace_from = w.trace.size();
    w.peer_send(peer, rq.mcast ? grp : srv, wire);
    bool quiet = w.run(w.now + 30000, 4000);
    if (!quiet && w.hit_cap) { info->inconclusive = true; break; }
    { char b[64]; snprintf(b, sizeof b, " REQ%u%s{", qi, rq.mcast ? "(mcast)" : ""); info->rs(b); info->rs(lc::render(m)); info->rs("}"); }
    info->mixu(rq.mcast);
    info->mix(wire.data(), wire.size());
    // ---- what came back ----
    std::vector<ref::Msg> replies;
    bool malformed_reply = false;
    for (auto &d : peer->inbox) { ref::Msg r; if (simh::parse(d.data, &r)) replies.push_back(r); else malformed_reply = true; }
    (void)trace_from;
    if (malformed_reply) { info->fail("request %u: server sent a malformed datagram", qi); verdict = VIOLATION; break; }
    std::vector<Outcome> adm = admissible(cs, rq, info);
    // The proxy pseudo resource answers a CON request with an early Empty ACK (the direct reply) and a separate CON response
    ref::Msg separate;
    bool have_separate = false;
    if (replies.size() == 2 && m.type == 0 && replies[0].type == 2 && replies[0].code == 0 && replies[1].type == 0 && replies[1].code != 0 &&
        adm.size() == 1 && adm[0].kind == O_HANDLER && adm[0].handler_res == RES_PROXY) {
      separate = replies[1];
      have_separate = true;
      if (separate.token != m.token) { info->fail("request %u: separate proxy response does not echo the token", qi); verdict = VIOLATION; break; }
      replies.pop_back();
      info->label("proxy:early-ack+separate");
    }
    if (replies.size() > 1) { info->fail("request %u: %zu datagrams sent in reply to one request", qi, replies.size()); verdict = VIOLATION; break; }
    // post-processing per candidate: No-Response and multicast suppression
    const ref::Opt *nr = simh::find_opt(m, 258);
    auto post = [&](Outcome o) -> std::vector<Outcome> {
      std::vector<Outcome> v;
      if (o.handler_res == -7) { v.push_back(Outcome{o.kind, o.code, -9}); return v; }
      if (o.handler_res == -8) {
        // 4.02 / RST for unknown critical options and oversized tokens are produced before the request is handled; the statement
        // does not say whether No-Response / multicast suppression covers them: both forms are admissible
        v.push_back(Outcome{o.kind, o.code, -9});
        if (rq.mcast) v.push_back(Outcome{O_NONE, 0, -9});
        if (nr && o.kind == O_RESPONSE) v.push_back(Outcome{m.type == 0 ? O_EMPTY_ACK : O_NONE, 0, -9});
        return v;
      }
      uint8_t code = o.kind == O_HANDLER ? cs.plan.code : o.code;
      if (o.kind == O_HANDLER && o.handler_res == -3) code = 0x45;  // built-in .well-known/core
      if (o.kind == O_HANDLER && code == 0) { v.push_back(Outcome{m.type == 0 ? O_EMPTY_ACK : O_NONE, 0, o.handler_res}); return v; }
      if (o.kind == O_RESPONSE || o.kind == O_HANDLER) {
        uint8_t cls = code >> 5;
        if (cls == 1 || cls == 6 || cls == 7) { v.push_back(Outcome{O_NONE, 0, o.handler_res}); return v; }  // handler set an invalid code: dropped
        if (nr && cls >= 1 && cls <= 7) {
          uint32_t val = simh::opt_uint(nr->val);
          if (val & (1u << (cls - 1))) { v.push_back(Outcome{m.type == 0 ? O_EMPTY_ACK : O_NONE, 0, o.handler_res}); return v; }
          v.push_back(Outcome{o.kind == O_HANDLER ? O_HANDLER : O_RESPONSE, code, o.handler_res, o.flags_res});
          return v;
        }
        if (rq.mcast) {
          // RFC 7252 8.1 + libcoap's per-resource flags: admissible to answer or to stay silent for error classes; success may be
          // suppressed only through the per-resource 2.xx flags
          bool may_drop = cls > 2;
          if (cs.mcast_per_resource && o.flags_res != -9) {
            int fl = o.flags_res >= 0 ? cs.res[o.flags_res].flags : 0;
            may_drop = false;
            if (cls == 2 && (fl & COAP_RESOURCE_FLAGS_LIB_ENA_MCAST_SUPPRESS_2_XX)) may_drop = true;
            if (code == 0x45 && (fl & COAP_RESOURCE_FLAGS_LIB_ENA_MCAST_SUPPRESS_2_05) && cs.plan.payload.empty()) may_drop = true;
            if (cls == 4 && !(fl & COAP_RESOURCE_FLAGS_LIB_DIS_MCAST_SUPPRESS_4_XX)) may_drop = true;
            if (cls == 5 && !(fl & COAP_RESOURCE_FLAGS_LIB_DIS_MCAST_SUPPRESS_5_XX)) may_drop = true;
            if (may_drop) { v.push_back(Outcome{O_NONE, 0, o.handler_res}); return v; }
            v.push_back(Outcome{o.kind, code, o.handler_res, o.flags_res});
            return v;
          }
          if (may_drop) { v.push_back(Outcome{O_NONE, 0, o.handler_res}); return v; }
        }
        v.push_back(Outcome{o.kind, code, o.handler_res, o.flags_res});
        return v;
      }
      if (o.kind == O_RST && rq.mcast && m.type == 1) { v.push_back(Outcome{O_NONE, 0, -9}); return v; }
      v.push_back(o);
      return v;
    };
    std::vector<Outcome> fin;
    for (auto &o : adm) for (auto &p : post(o)) fin.push_back(p);
    // classify the actual reply
    OutKind got = O_NONE;
    uint8_t gotcode = 0;
    if (!replies.empty()) {
      const ref::Msg &r = replies[0];
      if (r.type == 3) got = O_RST;
      else if (r.code == 0 && r.type == 2) got = O_EMPTY_ACK;
      else { got = O_RESPONSE; gotcode = r.code; }
      // generic obligations
      if (m.type == 1 && r.type == 2) { info->fail("request %u: Non-confirmable request answered with an ACK", qi); verdict = VIOLATION; break; }
      if (r.code != 0 && r.token != m.token) { info->fail("request %u: reply does not echo the request's token", qi); verdict = VIOLATION; break; }
      if (r.code == 0 && !r.token.empty()) { info->fail("request %u: Empty reply carries a token", qi); verdict = VIOLATION; break; }
      if (m.type == 0 && (r.type == 2 || r.type == 3) && r.mid != m.mid) { info->fail("request %u: ACK/RST with message id %u, request had %u", qi, r.mid, m.mid); verdict = VIOLATION; break; }
      if (m.type == 0 && r.type != 2 && r.type != 3) { info->fail("request %u: Confirmable request answered directly by type %u", qi, r.type); verdict = VIOLATION; break; }
      if (m.type >= 2) { info->fail("request %u: a message of type %s was answered", qi, simh::type_name(m.type).c_str()); verdict = VIOLATION; break; }
    }
    if (have_separate) { got = O_RESPONSE; gotcode = separate.code; replies[0] = separate; }
    else if (got == O_EMPTY_ACK && adm.size() == 1 && adm[0].kind == O_HANDLER && adm[0].handler_res == RES_PROXY && m.type == 0 && cs.plan.code == 0) { /* early ACK only */ }
    bool ok = false;
    const Outcome *matched = nullptr;
    for (auto &o : fin) {
      if (o.kind == O_HANDLER && got == O_RESPONSE && gotcode == o.code) { ok = true; matched = &o; break; }
      if (o.kind == got && (got != O_RESPONSE || gotcode == o.code)) { ok = true; matched = &o; break; }
    }
    if (!ok) {
      std::string want;
      for (auto &o : fin) { char b[64]; snprintf(b, sizeof b, "%s%s%u.%02u ", o.kind == O_NONE ? "nothing" : o.kind == O_RST ? "RST" : o.kind == O_EMPTY_ACK ? "emptyACK" : o.kind == O_HANDLER ? "handler->" : "", (o.kind == O_RESPONSE || o.kind == O_HANDLER) ? "" : "", (o.kind == O_RESPONSE || o.kind == O_HANDLER) ? o.code >> 5 : 0, (o.kind == O_RESPONSE || o.kind == O_HANDLER) ? o.code & 31 : 0); want += b; }
      info->fail("request %u: server replied %s %u.%02u, admissible: %s", qi, got == O_NONE ? "nothing" : got == O_RST ? "RST" : got == O_EMPTY_ACK ? "empty ACK" : "response", gotcode >> 5, gotcode & 31, want.c_str());
      verdict = VIOLATION;
      break;
    }
    // handler log
    bool handler_expected = matched->handler_res != -9 && matched->handler_res != -3 && (matched->kind == O_HANDLER || adm.size() == 1) && adm[0].kind == O_HANDLER;
    bool only_handler = adm.size() == 1 && adm[0].kind == O_HANDLER && adm[0].handler_res != -3;
    bool no_handler_possible = true;
    for (auto &o : adm) if (o.kind == O_HANDLER && o.handler_res != -3) no_handler_possible = false;
    (void)handler_expected;
    if (no_handler_possible && !cs.log.empty()) { info->fail("request %u: an application handler ran although no rule allows it", qi); verdict = VIOLATION; break; }
    if (only_handler) {
      if (cs.log.size() != 1) { info->fail("request %u: handler invoked %zu times, expected exactly once", qi, cs.log.size()); verdict = VIOLATION; break; }
      const Invocation &inv = cs.log[0];
      if (inv.res != adm[0].handler_res) { info->fail("request %u: handler of resource %d ran, expected resource %d", qi, inv.res, adm[0].handler_res); verdict = VIOLATION; break; }
      if (inv.method != m.code) { info->fail("request %u: handler saw method %u, request was %u", qi, inv.method, m.code); verdict = VIOLATION; break; }
      if (inv.payload != m.payload) { info->fail("request %u: handler saw a different payload", qi); verdict = VIOLATION; break; }
      // options: identical except Hop-Limit (decremented) and Block2 M bit (cleared)
      std::vector<ref::Opt> want = m.opts;
      for (auto &o : want) {
        if (o.num == 16 && o.val.size() == 1 && o.val[0] > 1 && !rq.served_locally) o.val[0]--;
        if (o.num == 23 && !o.val.empty()) o.val[o.val.size() - 1] &= (uint8_t)~0x08;
      }
      // a Block2 value that becomes 0 is re-encoded with zero length
      for (auto &o : want) if (o.num == 23) { while (!o.val.empty() && o.val[0] == 0) o.val.erase(o.val.begin()); }
      if (inv.res != RES_PROXY || true) {
        if (!(inv.opts == want)) { info->fail("request %u: handler saw a different option list (%zu vs %zu options)", qi, inv.opts.size(), want.size()); verdict = VIOLATION; break; }
      }
      std::string wq;
      // RFC 7252 6.5 step 7: arguments joined by '&'; inside one, everything outside unreserved / sub-delims without '&' / ':' '@' '/' '?' is percent-encoded
      {
        bool first = true;
        for (auto &o : m.opts) if (o.num == 15) {
          if (!first) wq += "&";
          first = false;
          for (unsigned char c : o.val) {
            bool plain = (c >= 'A' && c <= 'Z') || (c >= 'a' && c <= 'z') || (c >= '0' && c <= '9') || (c != 0 && strchr("-._~!$'()*+,;=:@/?", c));
            if (!plain) { char b[4]; snprintf(b, sizeof b, "%%%02X", c); wq += b; } else wq += (char)c;
          }
        }
      }
      if (inv.query != wq) { info->fail("request %u: handler saw query '%s', sent '%s'", qi, inv.query.c_str(), wq.c_str()); verdict = VIOLATION; break; }
      if (inv.res >= 0 && inv.path != cs.res[inv.res].path) { info->fail("request %u: handler saw path '%s', resource is '%s'", qi, inv.path.c_str(), cs.res[inv.res].path.c_str()); verdict = VIOLATION; break; }
      // what the handler set is what is sent
      if (got == O_RESPONSE) {
        const ref::Msg &r = replies[0];
        if (r.payload != cs.plan.payload) { info->fail("request %u: response payload differs from what the handler set", qi); verdict = VIOLATION; break; }
        bool cf = simh::find_opt(r, 12) != nullptr;
        if (cf != cs.plan.add_cf) { info->fail("request %u: Content-Format option %s", qi, cf ? "appeared" : "was lost"); verdict = VIOLATION; break; }
      }
      info->label("outcome:handler");
    }
    bool plain = only_handler && cs.plan.code == 0x45 && !nr && !rq.mcast;
    if (m.type < 2 && !plain) info->nontrivial = true;
    if (rq.mcast) info->label("dest:multicast");
    if (nr) info->label("no-response-option");
  }
  w.remove_context(ctx);
  coap_free_context(ctx);
  G = nullptr;
  return verdict;
}
