// C15 — OSCORE never accepts a replay or reuses a nonce; forgeries leave no trace.
// (R) recipient: libcoap server fed by the reference sender (ref/refoscore.h) with generated histories of fresh / out-of-order /
//     replayed / forged messages; replay-window model as oracle.
// (S) sender: libcoap client with save callback and ssn_freq, crashed at generated points and restarted from the last saved value;
//     all Partial IVs ever put on the wire must be distinct.
#include "../sim/helpers.h"
#include "../ref/refoscore.h"
using namespace verif;
using namespace sim;

const char *verif_property_id = "C15";
const char *verif_rule =
    "tape -> (R) libcoap OSCORE server (replay window 1..63 or default, Appendix B.1.2 on/off, ids 0..7 bytes) and a reference-driven client; history of 1..40 deliveries from "
    "{fresh message with sequence gap g in {1, 2, 3, 31, 32, 33, 62, 63, 64, 65, 100, 2^20}, older sequence number never sent before (inside / at the edge of / outside the window), exact replay of "
    "the i-th earlier datagram, re-protection of an earlier sequence number with new content, forgery (genuine header and OSCORE option claiming any Partial IV - fresh, far ahead, inside the "
    "window, already used - with a damaged ciphertext or tag)}, first sequence number from the Partial IV length boundaries. Oracle (model of RFC 8613 7.4): a sequence number reaches the "
    "request handler at most once whatever the order; every fresh (higher) number and every never-seen number strictly inside the window is accepted; forgeries reach no handler and change "
    "nothing, i.e. the model ignores them and all later verdicts still agree. With B.1.2 the first request is answered 4.01 + Echo and the repeated request carrying the Echo value is accepted "
    "exactly once. (S) libcoap OSCORE client with save callback, ssn_freq 1..20, start sequence number from the boundaries, 1..4 lives of 0..25 requests each; a life ends by a crash "
    "(the values saved so far are all that survives) and the next life starts from the value last handed to the callback (or the original start value if none): all Partial IVs on the wire "
    "are distinct, and every saved value is greater than every Partial IV used before it was saved. "
    "Non-trivial = (R) a replay or forgery and an out-of-order or gap >= 64 delivery, (S) a crash between two saves; distinct = by history";
size_t verif_max_tape = 500;

namespace {
typedef std::vector<uint8_t> Bytes;

struct Case {
  World *w = nullptr;
  std::vector<Bytes> srv_payloads;   // payload seen by the request handler, per call
  std::vector<uint64_t> saved;       // values handed to the save callback
  bool saving = true;
} *G = nullptr;

void h_srv(coap_resource_t *, coap_session_t *, const coap_pdu_t *request, const coap_string_t *, coap_pdu_t *response) {
  size_t len = 0;
  const uint8_t *d = nullptr;
  Bytes p;
  if (coap_get_data(request, &len, &d) && d) p.assign(d, d + len);
  G->srv_payloads.push_back(p);
  coap_pdu_set_code(response, COAP_RESPONSE_CODE_CHANGED);
}
coap_response_t h_cli(coap_session_t *, const coap_pdu_t *, const coap_pdu_t *, const coap_mid_t) { return COAP_RESPONSE_OK; }
int save_seq(uint64_t v, void *) { if (G && G->saving) G->saved.push_back(v); return 1; }

std::string hexs(const Bytes &b) { std::string s; char t[3]; for (uint8_t x : b) { snprintf(t, 3, "%02x", x); s += t; } return s; }
std::string conf_text(const refo::Ctx &c, int window, bool b12, unsigned ssn_freq) {
  std::string s;
  s += "master_secret,hex,\"" + hexs(c.master_secret) + "\"\n";
  if (!c.master_salt.empty()) s += "master_salt,hex,\"" + hexs(c.master_salt) + "\"\n";
  s += "sender_id,hex,\"" + hexs(c.sender_id) + "\"\n";
  s += "recipient_id,hex,\"" + hexs(c.recipient_id) + "\"\n";
  if (c.has_id_context) s += "id_context,hex,\"" + hexs(c.id_context) + "\"\n";
  if (window > 0) s += "replay_window,integer," + std::to_string(window) + "\n";
  if (ssn_freq) s += "ssn_freq,integer," + std::to_string(ssn_freq) + "\n";
  s += std::string("rfc8613_b_1_2,bool,") + (b12 ? "true" : "false") + "\nrfc8613_b_2,bool,false\n";
  return s;
}

refo::Ctx gen_ctx(Tape &t) {
  refo::Ctx c;
  c.master_secret = t.blob(16);
  if (t.flag()) c.master_salt = t.blob(8);
  c.sender_id = t.blob(t.pick({2, 3, 1}) == 0 ? 0 : t.pick({3, 1}) == 0 ? 1 : t.range(2, 7));
  c.recipient_id = t.blob(t.pick({2, 3, 1}) == 0 ? 0 : t.pick({3, 1}) == 0 ? 1 : t.range(2, 7));
  if (c.recipient_id == c.sender_id) { c.recipient_id.push_back(0x5a); if (c.recipient_id.size() > 7) { c.recipient_id.resize(7); c.recipient_id[0] ^= 1; } }
  if (t.chance(60)) { c.has_id_context = true; c.id_context = t.blob(t.range(1, 8)); }
  refo::derive(c);
  return c;
}
uint64_t gen_seq(Tape &t, uint64_t room) {
  static const uint64_t B[] = {0, 1, 200, 255, 256, 65535, 65536, (1ull << 24) - 1, 1ull << 24, (1ull << 32) - 1, 1ull << 32, (1ull << 40) - 1};
  uint64_t s = B[t.range(0, sizeof B / sizeof B[0] - 1)];
  int d = (int)t.range(0, 80) - 40;
  if (d < 0 && s < (uint64_t)-d) d = 0;
  s += (uint64_t)(int64_t)d;
  uint64_t top = (1ull << 40) - 2;
  if (s + room > top) s = top - room;
  return s;
}

}  // namespace

void verif_init() {
  coap_startup();
  coap_set_log_level(getenv("C15_DEBUG") ? COAP_LOG_DEBUG : COAP_LOG_EMERG);
  const char *e = refo::selftest();
  if (e) { fprintf(stderr, "reference OSCORE implementation fails RFC 8613 test vector: %s\n", e); abort(); }
}

int verif_case(const uint8_t *tape, size_t tlen, Info *info) {
  Tape t(tape, tlen);
  Case cs;
  G = &cs;
  World w;
  cs.w = &w;
  w.record_payloads = false;
  seed_prng(t.u16());
  bool sender_mode = t.pick({3, 1}) == 1;
  refo::Ctx cli = gen_ctx(t), srv = refo::mirror(cli);
  int verdict = HELD;
  std::string hist;
  char hb[200];
  Addr sa = Addr::v4(10, 0, 0, 1, 5683), ca = Addr::v4(10, 0, 7, 1, 45000);
  coap_context_t *ctx = nullptr;
#define FAIL(...) do { info->fail(__VA_ARGS__); verdict = VIOLATION; goto teardown; } while (0)

  if (!sender_mode) {
    // ================= (R) recipient =================
    int window = t.pick({1, 4}) == 0 ? 0 : (int)(t.pick({1, 1}) ? t.range(1, 8) : t.range(9, 63));
    unsigned W = window ? (unsigned)window : 32;   // COAP_OSCORE_DEFAULT_REPLAY_WINDOW
    bool b12 = t.chance(80);
    ctx = coap_new_context(nullptr);
    if (!ctx) { G = nullptr; return OUT_OF_DOMAIN; }
    std::string txt = conf_text(srv, window, b12, 0);
    coap_str_const_t mem = {txt.size(), (const uint8_t *)txt.data()};
    coap_oscore_conf_t *conf = coap_new_oscore_conf(mem, nullptr, nullptr, 0);
    if (!conf || !coap_context_oscore_server(ctx, conf)) FAIL("OSCORE server set-up failed for a valid configuration:\n%s", txt.c_str());
    coap_address_t la;
    sa.to_coap(&la);
    coap_new_endpoint(ctx, &la, COAP_PROTO_UDP);
    coap_resource_t *res = coap_resource_init(coap_make_str_const("r"), COAP_RESOURCE_FLAGS_OSCORE_ONLY);
    coap_register_handler(res, COAP_REQUEST_POST, h_srv);
    coap_add_resource(ctx, res);
    w.add_context(ctx);
    Peer *C = w.add_peer(ca);
    std::vector<Bytes> rx;
    C->on_rx = [&](World &, Peer &, const Datagram &d) { rx.push_back(d.data); };
    snprintf(hb, sizeof hb, "R window=%d%s ids=%s/%s%s; ", window, b12 ? " B.1.2" : "", hex(cli.sender_id, 8).c_str(), hex(cli.recipient_id, 8).c_str(), cli.has_id_context ? " idctx" : "");
    hist += hb;
    // model
    std::set<uint64_t> accepted, ever_sent;
    bool have_last = false;
    uint64_t last = 0;
    std::vector<std::pair<uint64_t, Bytes>> sent_dgrams;   // (seq, datagram) of genuine messages
    uint16_t mid = 0x100;
    unsigned content = 0;
    bool did_replay = false, did_forgery = false, did_ooo = false;
    Bytes echo;   // value to echo (B.1.2)
    bool synced = !b12;
    auto make = [&](uint64_t seq, bool with_echo) {
      ref::Msg m;
      m.code = 2;
      m.opts.push_back(ref::Opt{11, {'r'}});
      if (with_echo) m.opts.push_back(ref::Opt{252, echo});
      content++;
      m.payload = {(uint8_t)(content >> 8), (uint8_t)content, (uint8_t)(seq >> 8), (uint8_t)seq};
      refo::Protected p = refo::protect_request(cli, m, seq, true);
      p.outer.type = 1;
      p.outer.mid = mid++;
      p.outer.token = {(uint8_t)(content >> 8), (uint8_t)content};
      return std::make_pair(ref::encode(p.outer, ref::F_UDP), p);
    };
    // deliver one datagram; returns number of handler calls it caused
    auto deliver = [&](const Bytes &d) -> size_t {
      size_t before = cs.srv_payloads.size();
      rx.clear();
      w.steps = 0;
      w.trace.clear();
      w.peer_send(C, sa, d);
      w.run(w.now + 1, 4000);
      return cs.srv_payloads.size() - before;
    };
    uint64_t first = gen_seq(t, 1ull << 22);
    uint64_t max_sent = first;
    unsigned n = t.range(1, 40);
    for (unsigned i = 0; i < n; i++) {
      size_t kind = i == 0 ? 0 : t.pick({6, 3, 3, 1, 4});
      if (!synced) kind = 0;
      if (kind == 0 || (kind != 4 && sent_dgrams.empty())) {
        // ---- fresh ----
        static const uint32_t GAPS[] = {1, 1, 1, 2, 3, 31, 32, 33, 62, 63, 64, 65, 100, 1u << 20};
        uint64_t seq = i == 0 ? first : max_sent + GAPS[t.range(0, sizeof GAPS / sizeof GAPS[0] - 1)];
        if (seq > (1ull << 40) - 2) seq = max_sent + 1;
        if (seq > (1ull << 40) - 2) break;
        if (seq - max_sent >= 64) did_ooo = true;
        max_sent = std::max(max_sent, seq);
        auto mk = make(seq, false);
        ever_sent.insert(seq);
        size_t calls = deliver(mk.first);
        snprintf(hb, sizeof hb, "fresh(%llu)->%zu ", (unsigned long long)seq, calls);
        hist += hb;
        if (!synced) {
          // Appendix B.1.2: the server does not know where the client's sequence numbers are: 4.01 with an Echo value to repeat
          if (calls) FAIL("B.1.2 is enabled and the replay window is not initialised, but request %llu reached the handler without an Echo round trip", (unsigned long long)seq);
          ref::Msg r;
          bool got = false;
          for (auto &d : rx) if (simh::parse(d, &r) && r.code) { got = true; break; }
          if (!got) FAIL("B.1.2: no response to the first request");
          refo::Unprotected u = refo::unprotect_response(cli, r, mk.second.request_kid, mk.second.request_piv);
          if (!u.ok) FAIL("B.1.2: the reference cannot unprotect the server's challenge (%s)", u.why);
          const ref::Opt *e = nullptr;
          for (auto &o : u.inner) if (o.num == 252) e = &o;
          if (u.code != 0x81 || !e) FAIL("B.1.2: expected 4.01 with Echo, got %u.%02u %s Echo", u.code >> 5, u.code & 31, e ? "with" : "without");
          echo = e->val;
          // repeat with Echo and the next sequence number
          uint64_t seq2 = ++max_sent;
          auto mk2 = make(seq2, true);
          ever_sent.insert(seq2);
          calls = deliver(mk2.first);
          snprintf(hb, sizeof hb, "echo(%llu)->%zu ", (unsigned long long)seq2, calls);
          hist += hb;
          if (calls != 1) FAIL("B.1.2: the repeated request carrying the Echo value reached the handler %zu times", calls);
          synced = true;
          accepted.insert(seq2);
          last = seq2; have_last = true;
          sent_dgrams.push_back({seq2, mk2.first});
          // the challenge request itself was not accepted; its sequence number is older than the synchronisation point
          sent_dgrams.push_back({seq, mk.first});
          info->label("B.1.2-echo");
          continue;
        }
        sent_dgrams.push_back({seq, mk.first});
        if (calls != 1) FAIL("fresh message with sequence number %llu (highest accepted so far %llu) reached the handler %zu times; history: %s", (unsigned long long)seq, (unsigned long long)last, calls, hist.c_str());
        accepted.insert(seq);
        if (!have_last || seq > last) { last = seq; have_last = true; }
      } else if (kind == 1) {
        // ---- an older sequence number that was never sent before ----
        uint64_t back;
        switch (t.pick({4, 2, 2})) { case 0: back = t.range(1, W); break; case 1: back = W + t.range(0, 2); break; default: back = W + t.range(3, 200); break; }
        if (back > last) continue;
        uint64_t seq = last - back;
        if (ever_sent.count(seq)) continue;
        if (b12 && seq <= first + 1) continue;   // older than the B.1.2 synchronisation point
        did_ooo = true;
        auto mk = make(seq, false);
        ever_sent.insert(seq);
        sent_dgrams.push_back({seq, mk.first});
        size_t calls = deliver(mk.first);
        snprintf(hb, sizeof hb, "old-unseen(%llu,back=%llu)->%zu ", (unsigned long long)seq, (unsigned long long)back, calls);
        hist += hb;
        if (calls > 1) FAIL("sequence number %llu reached the handler %zu times", (unsigned long long)seq, calls);
        if (calls == 1) accepted.insert(seq);
        // strictly inside the window: must be accepted; the edge (back == W, W+1) is left to the implementation's way of counting
        if (back < W && back <= 63 && calls != 1) FAIL("never-seen sequence number %llu, %llu behind the highest accepted %llu (replay window %u), was rejected; history: %s", (unsigned long long)seq, (unsigned long long)back, (unsigned long long)last, W, hist.c_str());
        if (back > W + 1 && calls) info->label("accepted-outside-window");
      } else if (kind == 2 || kind == 3) {
        // ---- replay: the same datagram again, or the same sequence number protecting new content ----
        auto &pick = sent_dgrams[t.range(0, (uint32_t)sent_dgrams.size() - 1)];
        bool was_accepted = accepted.count(pick.first) != 0;
        Bytes d = pick.second;
        if (kind == 3) d = make(pick.first, false).first;
        else { d[2] = (uint8_t)(mid >> 8); d[3] = (uint8_t)mid; mid++; }
        did_replay = true;
        size_t calls = deliver(d);
        snprintf(hb, sizeof hb, "%s(%llu)->%zu ", kind == 2 ? "replay" : "reuse", (unsigned long long)pick.first, calls);
        hist += hb;
        if (was_accepted && calls) FAIL("sequence number %llu was accepted before and reached the handler again (%s); highest accepted %llu, window %u; history: %s", (unsigned long long)pick.first, kind == 2 ? "exact replay" : "re-used with new content", (unsigned long long)last, W, hist.c_str());
        if (calls > 1) FAIL("one datagram caused %zu handler calls", calls);
        if (calls == 1) accepted.insert(pick.first);   // (it had been rejected earlier, e.g. outside the window then)
      } else {
        // ---- forgery claiming some Partial IV ----
        uint64_t seq;
        switch (t.pick({3, 3, 3, 2})) {
        case 0: seq = max_sent + 1 + t.range(0, 3); break;                                   // the next fresh ones
        case 1: seq = max_sent + (t.flag() ? 64 + t.range(0, 100) : (1u << 20) + t.range(0, 1000)); break;   // far ahead
        case 2: seq = last >= t.range(1, W) ? last - t.range(1, W) : last; break;            // inside the window
        default: seq = sent_dgrams.empty() ? last : sent_dgrams[t.range(0, (uint32_t)sent_dgrams.size() - 1)].first; break;   // one that was used
        }
        if (seq > (1ull << 40) - 2) seq = (1ull << 40) - 2;
        auto mk = make(seq, false);
        Bytes d = mk.first;
        // damage ciphertext or tag (never the OSCORE option: the claimed Partial IV stays)
        ref::Msg outer;
        simh::parse(d, &outer);
        size_t pl = outer.payload.size();
        uint8_t how = t.u8();
        if ((how & 6) == 6) {
          // cut short: nothing, less than or exactly an AEAD tag, or just some bytes missing
          size_t nl = (how & 8) ? t.range(0, 8) : t.range(0, (uint32_t)pl - 1);
          outer.payload.resize(nl);
          info->label(nl <= 8 ? "forgery:ciphertext-not-longer-than-a-tag" : "forgery:truncated");
        } else if (how & 1) outer.payload[pl - 1 - t.range(0, 7)] ^= (uint8_t)(1u << t.range(0, 7));
        else outer.payload[t.range(0, (uint32_t)pl - 9)] ^= (uint8_t)(1u << t.range(0, 7));
        d = ref::encode(outer, ref::F_UDP);
        did_forgery = true;
        size_t calls = deliver(d);
        snprintf(hb, sizeof hb, "forged(%llu)->%zu ", (unsigned long long)seq, calls);
        hist += hb;
        if (calls) FAIL("a forged message (damaged ciphertext) claiming Partial IV %llu reached the request handler", (unsigned long long)seq);
        // no trace: the model is not updated at all
      }
    }
    // closing probe: the next fresh number is accepted whatever happened before
    if (synced && max_sent + 1 <= (1ull << 40) - 2) {
      auto mk = make(max_sent + 1, false);
      size_t calls = deliver(mk.first);
      if (calls != 1) FAIL("at the end of the history the next fresh sequence number %llu reached the handler %zu times; history: %s", (unsigned long long)(max_sent + 1), calls, hist.c_str());
    }
    info->nontrivial = (did_replay || did_forgery) && did_ooo;
    if (did_replay) info->label("replay");
    if (did_forgery) info->label("forgery");
    if (did_ooo) info->label("out-of-order-or-jump");
  } else {
    // ================= (S) sender =================
    unsigned ssn_freq = t.pick({1, 2}) == 0 ? 1 : t.range(2, 20);
    uint64_t start0 = gen_seq(t, 2000);
    unsigned lives = t.range(1, 4);
    std::set<uint64_t> used;
    uint64_t highest_used = 0;
    bool any_used = false, crash_between_saves = false;
    snprintf(hb, sizeof hb, "S ssn_freq=%u start=%llu lives=%u; ", ssn_freq, (unsigned long long)start0, lives);
    hist += hb;
    uint64_t start = start0;
    for (unsigned life = 0; life < lives; life++) {
      cs.saving = true;
      size_t saved_before = cs.saved.size();
      ctx = coap_new_context(nullptr);
      if (!ctx) { G = nullptr; return OUT_OF_DOMAIN; }
      coap_register_response_handler(ctx, h_cli);
      w.add_context(ctx);
      std::string txt = conf_text(cli, 0, false, ssn_freq);
      coap_str_const_t mem = {txt.size(), (const uint8_t *)txt.data()};
      coap_oscore_conf_t *conf = coap_new_oscore_conf(mem, save_seq, nullptr, start);
      if (!conf) FAIL("coap_new_oscore_conf() refused a valid configuration");
      Peer *S = w.peers.empty() ? w.add_peer(sa) : w.peers[0].get();
      std::vector<Datagram> rx;
      S->on_rx = [&](World &, Peer &, const Datagram &d) { rx.push_back(d); };
      coap_address_t dst;
      sa.to_coap(&dst);
      coap_session_t *session = coap_new_client_session_oscore(ctx, nullptr, &dst, COAP_PROTO_UDP, conf);
      if (!session) FAIL("coap_new_client_session_oscore() failed");
      unsigned nreq = t.pick({1, 6}) == 0 ? 0 : t.range(1, 25);
      snprintf(hb, sizeof hb, "life%u(start=%llu,n=%u):", life, (unsigned long long)start, nreq);
      hist += hb;
      for (unsigned k = 0; k < nreq; k++) {
        rx.clear();
        w.steps = 0;
        w.trace.clear();
        coap_pdu_t *pdu = coap_new_pdu(COAP_MESSAGE_NON, COAP_REQUEST_CODE_GET, session);
        uint8_t tk[2] = {(uint8_t)life, (uint8_t)k};
        coap_add_token(pdu, 2, tk);
        coap_add_option(pdu, COAP_OPTION_URI_PATH, 1, (const uint8_t *)"r");
        size_t saved_at_send = cs.saved.size();
        if (coap_send(session, pdu) == COAP_INVALID_MID) FAIL("coap_send() failed in life %u request %u", life, k);
        w.run(w.now, 4000);
        if (rx.size() != 1) FAIL("life %u request %u: %zu datagrams on the wire", life, k, rx.size());
        ref::Msg outer;
        if (!simh::parse(rx[0].data, &outer)) FAIL("malformed protected request");
        refo::Unprotected u = refo::unprotect_request(srv, outer);
        if (!u.ok) FAIL("the reference cannot unprotect the request of life %u #%u: %s", life, k, u.why);
        uint64_t piv = refo::piv_value(u.opt.piv);
        if (!used.insert(piv).second) FAIL("Partial IV %llu is used a second time (life %u, request %u); saved values so far:%s; history: %s", (unsigned long long)piv, life, k, [&] { std::string s; for (auto v : cs.saved) s += " " + std::to_string(v); return s; }().c_str(), hist.c_str());
        // a value saved while this request was protected has to lie beyond the Partial IV the request uses
        for (size_t si = saved_at_send; si < cs.saved.size(); si++)
          if (cs.saved[si] <= piv) FAIL("value %llu was handed to the save callback while Partial IV %llu was being used: a restart from it re-uses that number", (unsigned long long)cs.saved[si], (unsigned long long)piv);
        highest_used = any_used ? std::max(highest_used, piv) : piv;
        any_used = true;
        snprintf(hb, sizeof hb, " %llu", (unsigned long long)piv);
        hist += hb;
        // answer, so that the next request is not held back
        ref::Msg r;
        r.code = 0x45;
        r.payload = {'o', 'k'};
        ref::Msg pr = refo::protect_response(srv, r, u.opt.kid, u.opt.piv, -1);
        pr.type = 1; pr.mid = (uint16_t)(0x900 + k); pr.token = outer.token;
        w.peer_send(S, rx[0].src, ref::encode(pr, ref::F_UDP));
        w.run(w.now, 4000);
      }
      // crash: whatever was saved so far is all that survives
      cs.saving = false;
      if (!cs.saved.empty() && any_used && cs.saved.back() <= highest_used) {
        FAIL("crash after life %u: the last value handed to the save callback is %llu but Partial IV %llu is already on the wire - a restart from the saved value re-uses it; history: %s",
             life, (unsigned long long)cs.saved.back(), (unsigned long long)highest_used, hist.c_str());
      }
      if (cs.saved.empty() && any_used) FAIL("crash after life %u: %zu Partial IVs were used but nothing was ever handed to the save callback", life, used.size());
      if (cs.saved.size() > saved_before && nreq && (cs.saved.back() > highest_used + 1)) crash_between_saves = true;
      hist += cs.saved.empty() ? " crash(saved=-); " : " crash(saved=" + std::to_string(cs.saved.back()) + "); ";
      w.remove_context(ctx);
      coap_free_context(ctx);
      ctx = nullptr;
      start = cs.saved.empty() ? start0 : cs.saved.back();
    }
    info->nontrivial = crash_between_saves && lives > 1;
    if (crash_between_saves) info->label("crash-between-saves");
  }
teardown:
  info->label(sender_mode ? "mode:S" : "mode:R");
  info->rs(hist);
  info->mix(hist.data(), hist.size());
  if (ctx) { w.remove_context(ctx); coap_free_context(ctx); }
  G = nullptr;
  return verdict;
}
