// libcoap (public + internal) headers for the per-property harnesses, plus small
// helpers that read a coap_pdu_t through its accessors into the reference model type.
#pragma once
extern "C" {
#define COAP_API
#include "coap3/coap_libcoap_build.h"
}
#undef min
#undef max
#include "../ref/refcodec.h"
#include "../engine/verif.h"

namespace lc {

inline coap_proto_t proto_of(ref::Framing f, bool secure = false) {
  switch (f) {
  case ref::F_UDP: return secure ? COAP_PROTO_DTLS : COAP_PROTO_UDP;
  case ref::F_TCP: return secure ? COAP_PROTO_TLS : COAP_PROTO_TCP;
  default: return secure ? COAP_PROTO_WSS : COAP_PROTO_WS;
  }
}

// Read a PDU exclusively through the accessor API.
inline ref::Msg dump(const coap_pdu_t *pdu) {
  ref::Msg m;
  m.type = (uint8_t)coap_pdu_get_type(pdu);
  m.code = (uint8_t)coap_pdu_get_code(pdu);
  m.mid = (uint16_t)coap_pdu_get_mid(pdu);
  coap_bin_const_t tok = coap_pdu_get_token(pdu);
  if (tok.length) m.token.assign(tok.s, tok.s + tok.length);
  coap_opt_iterator_t oi;
  coap_opt_t *o;
  coap_option_iterator_init(pdu, &oi, COAP_OPT_ALL);
  while ((o = coap_option_next(&oi))) {
    ref::Opt ro;
    ro.num = oi.number;
    uint32_t l = coap_opt_length(o);
    const uint8_t *v = coap_opt_value(o);
    if (l && v) ro.val.assign(v, v + l);
    m.opts.push_back(std::move(ro));
  }
  size_t len = 0;
  const uint8_t *data = nullptr;
  if (coap_get_data(pdu, &len, &data) && len) m.payload.assign(data, data + len);
  return m;
}

inline std::string render(const ref::Msg &m) {
  char b[128];
  snprintf(b, sizeof b, "t=%u code=%u.%02u mid=%u tok[%zu]=", m.type, m.code >> 5, m.code & 31, m.mid, m.token.size());
  std::string s = b;
  s += verif::hex(m.token, 12);
  s += " opts=[";
  size_t k = 0;
  for (auto &o : m.opts) {
    if (k++ >= 12) { s += "..."; break; }
    snprintf(b, sizeof b, "%u:%zu:", o.num, o.val.size());
    s += b;
    s += verif::hex(o.val, 8);
    s += " ";
  }
  snprintf(b, sizeof b, "] pay[%zu]=", m.payload.size());
  s += b;
  s += verif::hex(m.payload, 8);
  return s;
}

// first difference between two abstract messages, "" when equal
inline std::string diff(const ref::Msg &a, const ref::Msg &b, bool datagram) {
  char buf[256];
  if (datagram && a.type != b.type) { snprintf(buf, sizeof buf, "type %u vs %u", a.type, b.type); return buf; }
  if (datagram && a.mid != b.mid) { snprintf(buf, sizeof buf, "mid %u vs %u", a.mid, b.mid); return buf; }
  if (a.code != b.code) { snprintf(buf, sizeof buf, "code %u vs %u", a.code, b.code); return buf; }
  if (a.token != b.token) { snprintf(buf, sizeof buf, "token len %zu vs %zu (%s vs %s)", a.token.size(), b.token.size(), verif::hex(a.token, 8).c_str(), verif::hex(b.token, 8).c_str()); return buf; }
  if (a.opts.size() != b.opts.size()) { snprintf(buf, sizeof buf, "option count %zu vs %zu", a.opts.size(), b.opts.size()); return buf; }
  for (size_t i = 0; i < a.opts.size(); i++) {
    if (a.opts[i].num != b.opts[i].num) { snprintf(buf, sizeof buf, "option[%zu] number %u vs %u", i, a.opts[i].num, b.opts[i].num); return buf; }
    if (a.opts[i].val != b.opts[i].val) { snprintf(buf, sizeof buf, "option[%zu] (#%u) value len %zu vs %zu", i, a.opts[i].num, a.opts[i].val.size(), b.opts[i].val.size()); return buf; }
  }
  if (a.payload != b.payload) { snprintf(buf, sizeof buf, "payload len %zu vs %zu", a.payload.size(), b.payload.size()); return buf; }
  return "";
}

}  // namespace lc
