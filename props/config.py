"""Per-property build and budget configuration used by ./check."""

# link-time interposition points of the simulation core (sim/sim.cc)
SIM_WRAPS = ["coap_ticks", "close", "epoll_ctl", "epoll_wait", "recv", "send",
             "coap_socket_bind_udp", "coap_socket_connect_udp", "coap_socket_send", "coap_socket_recv",
             "coap_socket_bind_tcp", "coap_socket_connect_tcp1", "coap_socket_connect_tcp2", "coap_socket_accept_tcp"]
SIM = dict(wraps=SIM_WRAPS, extra_sources=["sim/sim.cc"])
# + select(): the WebSocket layer waits for the peer's Close with it (C02, C05)
SIM_SELECT = dict(wraps=SIM_WRAPS + ["select"], extra_sources=["sim/sim.cc"])
ALLOC_WRAPS = ["coap_malloc_type", "coap_realloc_type", "coap_free_type"]
SIM_ALLOC = dict(wraps=SIM_WRAPS + ALLOC_WRAPS, extra_sources=["sim/sim.cc", "sim/alloc.cc"])


def enum(workers, total):
    step = (total + workers - 1) // workers
    return [{"mode": "enum", "from": i * step, "to": min(total, (i + 1) * step)} for i in range(workers)]


def rc(workers, cases, **kw):
    return [dict(mode="rc", cases=cases, **kw) for _ in range(workers)]


def rcl(workers, cases, long_size, **kw):
    """rapidcheck workers, every second one with long tapes (rapidcheck size up to long_size -> tape length up to 30 + 0.7*long_size):
    the plans of the history-based checks are longer than the 100 bytes the default size gives"""
    return [dict(mode="rc", cases=cases, **(dict(kw, max_size=long_size) if i % 2 else kw)) for i in range(workers)]


def fuzz(workers, runs, **kw):
    return [dict(mode="fuzz", runs=runs, **kw) for _ in range(workers)]


NOT_CLAIMED = {}

PROPS = {
    "C02": dict(
        level="exploration",
        technique="structure-aware fuzzing (libFuzzer coverage guidance and rapidcheck tapes) of a libcoap endpoint on a virtual network: valid prefix to reach a protocol state, then raw and field-mutated hostile inputs; ASan/UBSan/assert + per-case watchdog + canary request + reference-decoder 'malformed is never delivered' oracle",
        level_text="Server role over UDP, TCP and WebSocket and client role over UDP; states: observation, Block1 upload in progress, Block2 download in progress, TCP/WS before, during and after session setup; "
                   "all log levels incl. DEBUG/OSCORE (coap_show_pdu walks every PDU again).",
        level_note="Trusted base: sim/sim.cc, ref/refcodec.h (classification of malformed datagrams), sanitizer runtime. OSCORE-protected endpoints are attacked in C15's harness, DTLS/TLS records in C19's. 'Never loops forever' is a wall-clock watchdog of 20 s per case (normal cases take ~1 ms).",
        quick=rc(6, 4000) + fuzz(6, 30000, max_len=700, timeout=20),
        thorough=rc(4, 60000) + fuzz(12, 800000, max_len=700, timeout=20, max_time=2400),
        libs=["-lcrypto"],
        case_timeout=20,
        timeout_is_violation=True,
        **SIM_SELECT,
    ),
    "C13": dict(
        level="exploration",
        technique="generated multi-thread programs (rapidcheck tapes) against a server and a client context on loopback sockets with both I/O loops in their own threads and re-entering callbacks, built and run under ThreadSanitizer; lock-state invariants and a per-case watchdog (20 s; a program takes ~20 ms) as deadlock oracle",
        level_text="Programs of 2..8 application threads with 3..24 operations each (send, observe, async, notify, session create/release, resource add/delete, cache, ping) plus two I/O threads; the operating system owns the schedule.",
        level_note="Trusted base: ThreadSanitizer (happens-before race detection does not need the racy accesses to coincide, only to be unordered), the lock-state probes in props/C13.cc. One TSan suppression (props/tsan.supp) for the recorded known finding. Both build systems are exercised: the CMake build (its defaults) and, for part of the workers and all replays, the autotools build with its own defaults (thread safe + recursive lock detection), both under ThreadSanitizer. A race on a path no generated program reaches is not found.",
        quick=rc(6, 500) + rc(4, 500, alt=True),
        thorough=rc(8, 8000) + rc(6, 8000, alt=True),
        flavour="tsan",
        alt_flavour="tsan-at",
        case_timeout=20,
        min_repro=1,
    ),
    "C19": dict(
        level="exploration",
        technique="simulation-based property testing: libcoap client and server (GnuTLS PSK, DTLS and TLS) on a virtual network with GnuTLS on the virtual clock; generated credential relations, requests queued before the handshake, datagram faults and injected cleartext; handler / NACK / event logs and a cleartext-marker scan of every byte on the wire as oracle",
        level_text="Generated near-miss keys (one bit, prefix, extension, other length), unknown identities and SNI names, refusing hint callback, 0..5 queued CON/NON requests, loss / duplication / delay of handshake datagrams, cleartext CoAP injected before and after the handshake from the client's address and from a stranger.",
        level_note="Trusted base: sim/sim.cc, sim/tls.cc (GnuTLS time sources), GnuTLS itself (the handshake is GnuTLS's; the check is about what libcoap does around it). PKI and RPK credentials are not generated. With faults the delivery clause is weakened to 'never twice, order kept, every CON concluded'.",
        quick=rcl(12, 4000, 240),
        thorough=rcl(14, 60000, 240),
        wraps=SIM_WRAPS,
        extra_sources=["sim/sim.cc", "sim/tls.cc"],
        case_timeout=30,
    ),
    "C17": dict(
        level="exploration",
        technique="crash-point fault injection with a model-based restart oracle: the generated history runs in a forked child whose stdio / rename / remove calls made by the persistence code are counted (ld --wrap) and which _exit()s before or after the k-th call; a fresh server is restarted on the files and compared with the model's state before / after the interrupted operation; enumerated over every k of a catalogue, generated over histories and crash points",
        level_text="Histories of 1..12 create / delete / register / cancel / change operations over 3 dynamic resources and 3 observers, save_freq 1..10; per history the crash-free run (abrupt and orderly stop) and up to 4 crash points; the enumeration tier crashes before and after every I/O call of the last life of 7 catalogue histories (two of them with several kill/restart cycles).",
        level_note="Trusted base: the I/O wrappers and fork logic in props/C17.cc, sim/sim.cc. Crash model: process kill (_exit loses unflushed stdio buffers, data handed to the kernel survives), not power loss. The raw file layout (struct dumps with pointers) is not parsed by an own reader; torn files are judged by what a restarted server makes of them.",
        quick=enum(6, 7 * 700 * 2) + rc(6, 400),
        thorough=enum(4, 7 * 700 * 2) + rc(12, 6000),
        wraps=SIM_WRAPS + ["fopen", "fread", "fwrite", "fgets", "fprintf", "fflush", "fclose", "rename", "remove"],
        extra_sources=["sim/sim.cc"],
        case_timeout=120,
    ),
    "C18": dict(
        level="exploration",
        technique="fault-injection property testing: for every scenario of a catalogue and every index k the k-th request to libcoap's typed allocator fails (ld --wrap); enumerated over all k with default parameters and generated over scenario parameters and failure pairs; ASan/UBSan/assert + allocation table + LeakSanitizer + canary exchange as oracle",
        level_text="16 scenarios (set-up/tear-down, GET CON/NON, PUT, Block1, Block2, observe, async, OSCORE, URI helpers, .well-known/core, TCP, cache, context with listening address, Block1 from a scripted peer without Size1, large TCP messages), both endpoints libcoap; the enumeration tier fails every single allocation of every scenario once.",
        level_note="Trusted base: sim/alloc.cc (the allocation table and failure injection), sim/sim.cc, sanitizer runtimes. Only allocations through coap_malloc_type()/coap_realloc_type() are failed (not GnuTLS's or libc's own). 'The case returns' is a wall-clock watchdog of 30 s.",
        quick=enum(4, 16 * 400) + rc(8, 6000),
        thorough=enum(4, 16 * 400) + rc(12, 150000),
        case_timeout=30,
        **SIM_ALLOC,
    ),
    "C15": dict(
        level="exploration",
        technique="stateful model-based property testing: generated fresh / out-of-order / replay / forgery histories produced by an independent RFC 8613 sender (ref/refoscore.h) against a libcoap OSCORE server, replay-window model as oracle; generated crash/restart histories of a libcoap OSCORE client with save callback, uniqueness of all Partial IVs on the wire as oracle",
        level_text="Histories of 1..40 deliveries, replay window 1..63 and default, Appendix B.1.2 on and off, sequence numbers at every Partial IV length boundary, gaps 1..2^20; sender: ssn_freq 1..20, 1..4 lives, crash after any request.",
        level_note="Trusted base: ref/refoscore.h + OpenSSL libcrypto (RFC 8613 Appendix C vectors checked at start-up), sim/sim.cc, the window model in props/C15.cc. A crash is modelled as 'nothing after the last save callback survives'; the save callback itself is assumed durable.",
        quick=rcl(12, 2500, 600),
        thorough=rcl(14, 80000, 600),
        libs=["-lcrypto"],
        **SIM,
    ),
    "C14": dict(
        level="exploration",
        technique="differential property testing against an independent RFC 8613 implementation (ref/refoscore.h on OpenSSL, validated by the RFC's Appendix C vectors): libcoap client vs reference server and reference client vs libcoap server over a virtual network; metamorphic tamper sweeps (bit flips, truncations, foreign contexts) with a handler-invocation oracle",
        level_text="Generated security contexts (all id lengths 0..7, id context, salt, both AES-CCM key sizes, sequence numbers at every Partial IV length boundary up to 2^40), messages over the class E / class U option tables, "
                   "payload 0..1024, requests, responses and Observe notifications; per case a tamper sweep over every bit of the OSCORE option value, the ciphertext edges and a sample of the rest.",
        level_note="Trusted base: ref/refoscore.h + OpenSSL libcrypto (reproduces RFC 8613 C.1.1 and C.4 at start-up, otherwise the harness aborts), ref/refcodec.h, sim/sim.cc. Appendix B.1.2/B.2 negotiation is switched off here (C15 decides replay handling). Outer block-wise and Proxy-Uri splitting are not generated.",
        quick=rcl(12, 300, 600),
        thorough=rcl(14, 8000, 600),
        libs=["-lcrypto"],
        **SIM,
    ),
    "C12": dict(
        level="exploration",
        technique="stateful simulation-based property testing: generated request / reference / async / observe / time-jump / teardown histories from up to 50 scripted peers against a libcoap server (and client) on a virtual network; event and handler log against a session model, typed-allocation table, ASan and LeakSanitizer as lifetime oracle",
        level_text="Generated histories of 3..40 operations, session_timeout and max_idle_sessions from the tape, virtual time jumps around and across the session timeout, teardown wherever the history ends.",
        level_note="Trusted base: sim/sim.cc, sim/alloc.cc (ld --wrap of coap_malloc_type/coap_realloc_type/coap_free_type), the session model in props/C12.cc. A quarter of the cases use TCP connections (scenario C); in part of the cases block-wise transfers hang off the sessions and the virtual clock moves on inside library calls (tolerance 50 ms wherever the model's time stamp of an event is compared with libcoap's). DTLS sessions are C19's.",
        quick=rcl(12, 8000, 410),
        thorough=rcl(14, 100000, 410),
        **SIM_ALLOC,
    ),
    "C11": dict(
        level="exploration",
        technique="stateful simulation-based property testing: generated register / change / cancel / RST / withheld-ACK / handler-error / delete histories against a libcoap server on a virtual network; temporal invariants over the wire trace against a registration-entry model",
        level_text="Generated histories of 3..30 operations over 1..3 observable resources and 1..4 scripted observers with per-datagram loss, duplication and delay and virtual time jumps beyond the session timeout.",
        level_note="Trusted base: sim/sim.cc, the entry model in props/C11.cc. Notifications larger than one block (Block2 on notifications, follow-up fetches, ETag consistency) are generated in about 40 % of the cases; TCP observers are not generated.",
        quick=rcl(12, 15000, 380),
        thorough=rcl(14, 120000, 380),
        **SIM,
    ),
    "C09": dict(
        level="exploration",
        technique="simulation-based property testing: libcoap client and server perform Block1/Block2 transfers over a virtual network with generated sizes, modes and per-datagram faults; byte-exact body / tiling / token / MTU / release-count oracle from handler logs and the wire trace",
        level_text="Generated body lengths (dense around multiples of every block size), block size negotiation by MTU / server limit / client request, single-body and per-block modes, CON and NON, "
                   "drop/duplicate/delay plans; every piece any handler obtains is compared byte for byte with the sender's keyed pseudo-random body.",
        level_note="Trusted base: sim/sim.cc, handler bookkeeping in props/C09.cc. Q-Block (RFC 9177) is not enabled. One case in eight is a scripted peer uploading two bodies to one resource at the same time (Request-Tag separation). 'Never silence' is checked for Confirmable transfers at bounded quiescence.",
        quick=rcl(12, 6000, 240),
        thorough=rcl(14, 120000, 240),
        **SIM,
    ),
    "C05": dict(
        level="exploration",
        technique="metamorphic simulation-based property testing: the same generated TCP/WebSocket byte stream is delivered to a libcoap endpoint under generated and enumerated cut plans; delivered-message lists compared with each other and with the reference-encoded list",
        level_text="Generated streams (all TCP length forms, extended tokens, WS frame forms, handshake variants) and cut plans incl. one byte per read, exact-buffer reads and cuts aimed inside "
                   "every multi-byte header field; the enumerated tier walks 2- and 3-cut placements of short streams. The application's stack is overwritten between reads so that state kept in "
                   "a caller's stack buffer cannot survive by accident.",
        level_note="Trusted base: sim/sim.cc stream model (bytes become readable chunk by chunk, recv returns what is available), ref/refcodec.h, RFC 6455 framing in props/C05.cc. TLS/WSS framing is the same code above the TLS layer (C19 covers TLS).",
        quick=rcl(10, 700, 330) + enum(6, 6000),
        thorough=rcl(12, 20000, 330) + enum(4, 128000),
        libs=["-lcrypto"],
        **SIM_SELECT,
    ),
    "C10": dict(
        level="exploration",
        technique="simulation-based differential property testing: reference-encoded requests into a libcoap server with a generated resource table; executable decision table (admissible-outcome sets) + handler log oracle",
        level_text="Generated server configurations and requests over every code class, type, option combination and destination; the reply and the handler log must lie in the set "
                   "of outcomes admitted by an executable reading of the statement's rules (no precedence imposed where several rules apply).",
        level_note="Trusted base: decision table in props/C10.cc (DESIGN.md appendix A), ref/refcodec.h, sim/sim.cc. Error response payloads (diagnostic text) are not compared. Observe and block-wise handling are C11/C09.",
        quick=rcl(8, 8000, 470),
        thorough=rcl(14, 250000, 470) + fuzz(2, 300000, max_len=360),
        **SIM,
    ),
    "C08": dict(
        level="exploration",
        technique="simulation-based property testing: bursts of CON/NON submissions against scripted ACK/RST peers with faults on a virtual network; in-flight counter, FIFO and exactly-once oracle computed from the wire trace; TCP sessions with withheld CSM for the not-yet-established clause",
        level_text="Generated bursts, NSTART values, reply scripts (per received copy) and faults; the oracle replays the wire trace and never looks at libcoap's counters.",
        level_note="Trusted base: sim/sim.cc, ref/refcodec.h. The peer only answers copies it received, as the statement requires. DTLS hold-queue behaviour is decided in C19.",
        quick=rcl(8, 5000, 380),
        thorough=rcl(14, 120000, 380),
        **SIM,
    ),
    "C07": dict(
        level="exploration",
        technique="simulation-based property testing: libcoap client (and libcoap server with async responses) on a virtual network with generated loss/duplication/delay; per-token outcome counting oracle over the wire and callback trace",
        level_text="Generated request sequences, server response styles and per-datagram faults below ACK_TIMEOUT; the oracle counts handler/NACK calls per application "
                   "token against the datagrams actually delivered and checks the ACK/RST obligations from the trace.",
        level_note="Trusted base: sim/sim.cc, ref/refcodec.h, scripted server in props/C07.cc. 'Never neither' is demanded only where the network delivered an ACK or a response, "
                   "or nothing at all (then exactly one NACK); an empty ACK followed by a lost NON response legitimately leaves the exchange open.",
        quick=rc(4, 6000) + rc(6, 6000, max_size=320),
        thorough=rc(6, 150000) + rc(8, 150000, max_size=320),
        **SIM,
    ),
    "C06": dict(
        level="exploration",
        technique="simulation-based property testing: real coap_io_process on a virtual clock/network (ld --wrap), scripted peers and fault plans from a rapidcheck tape; trace oracle = reference retransmission schedule model; exhaustive drop-subset enumeration",
        level_text="Generated loss/duplication/delay patterns, timer settings and PRNG draws, up to three sessions (also with coinciding message ids) in one send queue, optionally server sessions idling out beside it; the world sleeps exactly as long as the library reports, so both the "
                   "schedule (exact doubling, T in range, stop at ACK/RST, MAX_RETRANSMIT) and the reported wait are decided from the complete wire/callback trace. "
                   "The thorough tier enumerates all 1024 drop subsets of the first 10 datagrams for 6 timer settings.",
        level_note="Trusted base: sim/sim.cc (virtual sockets replace coap_socket_* of coap_io.c), ref/refcodec.h. Tolerance on T is the Q.6 fixed point representation only. "
                   "NACK calls with a NULL PDU (unmatched RST) are labelled, not counted as a message outcome.",
        quick=rcl(8, 12000, 270) + enum(2, 1024),
        thorough=rcl(12, 300000, 270) + enum(4, 6144),
        **SIM,
    ),
    "C20": dict(
        level="exploration",
        technique="property-based testing (rapidcheck tape generator + libFuzzer) of generated resource tables x filters against an independent RFC 6690 printer/filter, with exhaustive (offset, buffer length) window enumeration per table",
        level_text="Generated tables and filters; the full listing must equal an independent RFC 6690 listing as a set of links, and every window "
                   "(exhaustively for listings up to 96 bytes, boundary families beyond) must be the exact slice with exact total and TRUNC flag. "
                   "Exact-size heap strings make filter overreads ASan reports. The block-wise GET clause is decided in the simulated network (see evidence counters).",
        level_note="Trusted base: ref/reflink.h (printer, quote-aware parser, RFC 6690 4.1 filter). Out of domain (memory safety only): filter without '=', "
                   "attribute values that start with '\"' but are not complete quoted strings, patterns containing spaces.",
        quick=rcl(8, 2500, 600),
        thorough=rcl(14, 60000, 600) + fuzz(2, 60000, max_len=260),
        assumptions=["order of links and of parameters is not constrained (hash / list order)"],
        **SIM,
    ),
    "C16": dict(
        level="exploration",
        technique="grammar-based property testing + libFuzzer on URI/path/query text in exact-size heap buffers under ASan; differential against an independent RFC 3986/7252 splitter; left-inverse (injectivity) and round-trip oracles for coap_get_uri_path/coap_get_query",
        level_text="Generated valid URIs (all schemes, host forms, ports, escapes, dot segments), targeted invalid URIs, blind bytes and dangling escapes, and raw "
                   "segment lists over the full byte alphabet; results compared with an independent splitter/decoder, every output buffer size tried, every input in a "
                   "malloc(len) buffer so any overread is an ASan report.",
        level_note="Trusted base: ref/refuri.h. Two documented slacks: a trailing '.'/'..' may or may not leave a final empty segment; an empty query ('?') may produce no Uri-Query. "
                   "For malformed percent-escapes only memory safety is demanded.",
        quick=rc(6, 60000) + fuzz(4, 200000, max_len=200),
        thorough=rc(10, 1500000) + fuzz(6, 6000000, max_len=300),
        assumptions=["RFC 7252 5.10.1 forbids Uri-Path values '.' and '..' so such lists are excluded from the feed-back round trip (not from injectivity)"],
    ),
    "C01": dict(
        level="exploration",
        technique="model-based property testing (rapidcheck tape generator + libFuzzer) of the PDU-building API; byte-equality against an independent RFC encoder, round-trip through independent decoder and coap_pdu_parse",
        level_text="Generated build sequences over all six transports; after every API call the accessor dump must equal an abstract model that follows "
                   "the call's return value (so a refusal must disturb nothing), refusals of options that demonstrably fit are violations, and the final "
                   "bytes must equal the canonical encoding produced by an independent encoder and re-parse to the model. Exploration-level: evidence "
                   "reports the number of distinct non-trivial messages and the class histogram.",
        level_note="Trusted base: ref/refcodec.h encoder/decoder; the model of the API's documented semantics in props/pdumodel.h "
                   "(stable ascending insertion, RFC 8768 Hop-Limit auto-insertion before Proxy-* in requests).",
        quick=rc(6, 60000) + fuzz(4, 150000, max_len=220),
        thorough=rc(10, 800000) + fuzz(6, 3000000, max_len=400),
        assumptions=["reference encoder ref/refcodec.h is canonical per RFC 7252 s3 / RFC 8974 / RFC 8323 s3"],
    ),
    "C04": dict(
        level="exploration",
        technique="stateful model-based property testing (rapidcheck tape generator + libFuzzer): edit sequences on a coap_pdu_t mirrored in a list model, checked after every step through accessors, independent codec and re-parse",
        level_text="Generated edit histories (insert/update/remove/token replacement) on built and parsed messages with bounded and unbounded buffers; "
                   "after every edit the accessor dump, the serialisation (byte equality with an independent encoder) and the re-parse must equal the model, "
                   "and refusals are only admissible when the result does not fit. ASan turns a stale pointer after a forced buffer move into a report.",
        level_note="Trusted base: list model of the documented edit semantics in props/C04.cc + ref/refcodec.h. coap_pdu_duplicate is not exercised here (needs a session).",
        quick=rc(6, 30000) + fuzz(4, 100000, max_len=400),
        thorough=rc(10, 500000) + fuzz(6, 2000000, max_len=600),
        assumptions=["edit semantics: insert keeps order among equal numbers, update/remove act on the first option with that number, update of an absent option inserts"],
    ),
    "C03": dict(
        level="exploration",
        technique="differential fuzzing (libFuzzer + rapidcheck tape generator) of coap_pdu_parse against an independent strict RFC decoder",
        level_text="Generated-input search: millions of blind and field-mutated encodings per run on UDP/TCP/WS framing; "
                   "accept/reject equivalence and field-by-field equality against an independent decoder written from the RFCs, under ASan/UBSan "
                   "with exact-size buffers. Exploration, not proof: a violation confined to an input class the generator never produces would be missed; "
                   "the label histogram in the evidence shows which classes were produced.",
        level_note="Trusted base: ref/refcodec.h (RFC 7252 s3, RFC 8974 s2.1, RFC 8323 s3, option length tables of RFC 7252/7641/7959/8613/8768/7967/9175/9177/8323 s5); "
                   "TCP inputs are sliced by the declared length exactly as coap_read_session does.",
        quick=rc(4, 150000) + fuzz(4, 400000, max_len=200),
        thorough=rc(8, 2000000) + fuzz(8, 8000000, max_len=400),
        assumptions=["ref/refcodec.h is a correct reading of RFC 7252 s3, RFC 8974 s2.1, RFC 8323 s3 and the option length tables",
                     "TCP inputs are sliced by the declared length as coap_read_session does"],
    ),
}
