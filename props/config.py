"""Per-property build and budget configuration used by ./check."""

SIM_WRAPS = []  # filled in below once sim/ exists


def rc(workers, cases, **kw):
    return [dict(mode="rc", cases=cases, **kw) for _ in range(workers)]


def fuzz(workers, runs, **kw):
    return [dict(mode="fuzz", runs=runs, **kw) for _ in range(workers)]


NOT_CLAIMED = {}

PROPS = {
    "C03": dict(
        level="exploration",
        technique="differential fuzzing (libFuzzer + rapidcheck tape generator) of coap_pdu_parse against an independent strict RFC decoder",
        level_text="Generated-input search: millions of blind and field-mutated encodings per run on UDP/TCP/WS framing; "
                   "accept/reject equivalence and field-by-field equality against an independent decoder written from the RFCs, under ASan/UBSan "
                   "with exact-size buffers. Exploration, not proof: a violation confined to an input class the generator never produces would be missed; "
                   "the label histogram in the evidence shows which classes were produced.",
        level_note="Trusted base: ref/refcodec.h (RFC 7252 s3, RFC 8974 s2.1, RFC 8323 s3, option length tables of RFC 7252/7641/7959/8613/8768/7967/9175/9177/8323 s5); "
                   "TCP inputs are sliced by the declared length exactly as coap_read_session does.",
        quick=rc(4, 150000) + fuzz(4, 400000, max_len=200),
        thorough=rc(8, 2000000) + fuzz(8, 8000000, max_len=400),
        assumptions=["ref/refcodec.h is a correct reading of RFC 7252 s3, RFC 8974 s2.1, RFC 8323 s3 and the option length tables",
                     "TCP inputs are sliced by the declared length as coap_read_session does"],
    ),
}
