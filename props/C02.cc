// C02 — arbitrary network input never breaks memory safety, liveness or the endpoint.
// libcoap server (UDP + TCP + WebSocket endpoints) or UDP client on the simulated network; a scripted peer first drives the
// endpoint into a protocol state with valid traffic, then delivers hostile inputs; sanitizers + canary + "malformed is never delivered".
#include "../sim/helpers.h"
#include <algorithm>
#include <openssl/evp.h>
#include <openssl/sha.h>
using namespace verif;
using namespace sim;

const char *verif_property_id = "C02";
const char *verif_rule =
    "tape -> role (libcoap server with UDP, TCP and WebSocket endpoints and canary / observable / Block1-accepting / Block2-serving resources, or libcoap UDP client with a plain, "
    "block-wise or observe request outstanding), log level from {EMERG, WARN, INFO, DEBUG, OSCORE}, block mode flags, a valid prefix that reaches a state (none, observation established, "
    "Block1 upload stopped after block k, Block2 download in progress, TCP after CSM, WS before / during / after the opening handshake), then 1..12 hostile deliveries interleaved with virtual "
    "time jumps (0, 1 s, beyond MAX_TRANSMIT_WAIT, beyond the block-transfer expiry), resource changes and valid traffic. A hostile input is raw tape bytes (0..1600) or a "
    "reference-encoded message fitting the state with 1..3 mutations (byte set, bit flip, truncation at any boundary, insertion, deletion, TKL nibble 9..15, version bits, option "
    "delta/length nibbles 13/14/15, lone payload marker, Block NUM/M/SZX incl. SZX 7, TCP length prefix vs. actual length, WS opcode / length form / mask bit); stream inputs are cut by a "
    "generated plan. Oracle: no sanitizer report, assertion or abort; every case returns (watchdog) and the world becomes quiet within its step cap; for a datagram the reference decoder "
    "rejects as malformed no application handler runs during its delivery and at most one new datagram goes back to its sender, which is RST or carries class 4/5; afterwards a "
    "well-formed GET /canary from a new peer and from the hostile peer (server role; also over a new TCP / WS connection when that transport was attacked) is answered 2.05 'canary' "
    "with matching token, resp. a fresh request of the client is answered into its response handler. "
    "Non-trivial = a hostile input was delivered in a non-initial state or was rejected after passing the fixed header; distinct = by scenario bytes Client role, longer tapes: the block-wise upload may be a FETCH with Observe and the scripted 2.31 Continue may name a block up to three ahead of the one just sent.";
size_t verif_max_tape = 700;

namespace {

std::string b64(const uint8_t *d, size_t n) {
  std::string out(4 * ((n + 2) / 3) + 1, '\0');
  int l = EVP_EncodeBlock((unsigned char *)&out[0], d, (int)n);
  out.resize((size_t)l);
  return out;
}
std::string ws_accept(const std::string &key_b64) {
  std::string in = key_b64 + "258EAFA5-E914-47DA-95CA-C5AB0DC85B11";
  uint8_t dig[20];
  SHA1((const unsigned char *)in.data(), in.size(), dig);
  return b64(dig, 20);
}
void ws_frame(std::vector<uint8_t> &out, const std::vector<uint8_t> &payload, bool masked, int lenform, uint8_t opcode, const uint8_t mask[4]) {
  out.push_back((uint8_t)(0x80 | opcode));
  size_t n = payload.size();
  int form = lenform;
  if (n > 125 && form == 0) form = 1;
  if (n > 65535) form = 2;
  if (form == 0) out.push_back((uint8_t)((masked ? 0x80 : 0) | n));
  else if (form == 1) { out.push_back((uint8_t)((masked ? 0x80 : 0) | 126)); out.push_back((uint8_t)(n >> 8)); out.push_back((uint8_t)n); }
  else { out.push_back((uint8_t)((masked ? 0x80 : 0) | 127)); for (int i = 7; i >= 0; i--) out.push_back((uint8_t)((uint64_t)n >> (8 * i))); }
  if (masked) for (int i = 0; i < 4; i++) out.push_back(mask[i]);
  for (size_t i = 0; i < n; i++) out.push_back(masked ? (uint8_t)(payload[i] ^ mask[i & 3]) : payload[i]);
}

struct Case {
  World *w = nullptr;
  unsigned handler_calls = 0;      // server request handlers + client response handler
  unsigned obs_state = 0;
  std::vector<std::pair<std::vector<uint8_t>, std::pair<uint8_t, std::string>>> responses;  // client role: token -> (code, payload)
} *G = nullptr;

std::vector<uint8_t> BIG;   // body served by /big

void note_handler(const char *what) {
  G->handler_calls++;
  G->w->callback(std::string("HANDLER ") + what);
}

void h_canary(coap_resource_t *, coap_session_t *, const coap_pdu_t *, const coap_string_t *, coap_pdu_t *response) {
  note_handler("canary");
  coap_pdu_set_code(response, COAP_RESPONSE_CODE_CONTENT);
  coap_add_data(response, 6, (const uint8_t *)"canary");
}
void h_obs(coap_resource_t *, coap_session_t *, const coap_pdu_t *, const coap_string_t *, coap_pdu_t *response) {
  note_handler("obs");
  coap_pdu_set_code(response, COAP_RESPONSE_CODE_CONTENT);
  char b[16];
  int n = snprintf(b, sizeof b, "s%u", G->obs_state);
  coap_add_data(response, (size_t)n, (const uint8_t *)b);
}
void h_up(coap_resource_t *, coap_session_t *, const coap_pdu_t *request, const coap_string_t *, coap_pdu_t *response) {
  note_handler("up");
  size_t len = 0, off = 0, total = 0;
  const uint8_t *data = nullptr;
  // walk what we were given: the application reads the body libcoap hands over
  if (coap_get_data_large(request, &len, &data, &off, &total) && data) {
    volatile uint8_t acc = 0;
    for (size_t i = 0; i < len; i++) acc ^= data[i];
    (void)acc;
  }
  coap_pdu_set_code(response, COAP_RESPONSE_CODE_CHANGED);
}
void h_big(coap_resource_t *resource, coap_session_t *session, const coap_pdu_t *request, const coap_string_t *query, coap_pdu_t *response) {
  note_handler("big");
  coap_pdu_set_code(response, COAP_RESPONSE_CODE_CONTENT);
  coap_add_data_large_response(resource, session, request, response, query, COAP_MEDIATYPE_TEXT_PLAIN, -1, 0x1234, BIG.size(), BIG.data(), nullptr, nullptr);
}
void h_any(coap_resource_t *, coap_session_t *, const coap_pdu_t *request, const coap_string_t *query, coap_pdu_t *response) {
  note_handler("any");
  // an application that looks at everything it is given
  coap_opt_iterator_t oi;
  coap_opt_t *o;
  coap_option_iterator_init(request, &oi, COAP_OPT_ALL);
  volatile unsigned acc = 0;
  while ((o = coap_option_next(&oi))) { const uint8_t *v = coap_opt_value(o); for (unsigned i = 0; i < coap_opt_length(o); i++) acc += v[i]; }
  if (query) for (size_t i = 0; i < query->length; i++) acc += query->s[i];
  coap_string_t *p = coap_get_uri_path(request);
  if (p) { for (size_t i = 0; i < p->length; i++) acc += p->s[i]; coap_delete_string(p); }
  (void)acc;
  coap_pdu_set_code(response, COAP_RESPONSE_CODE_CONTENT);
}

coap_response_t c_resp(coap_session_t *, const coap_pdu_t *, const coap_pdu_t *rcvd, const coap_mid_t) {
  note_handler("response");
  coap_bin_const_t tk = coap_pdu_get_token(rcvd);
  size_t len = 0, off = 0, total = 0;
  const uint8_t *data = nullptr;
  std::string pl;
  if (coap_get_data_large(rcvd, &len, &data, &off, &total) && data) pl.assign((const char *)data, len);
  coap_opt_iterator_t oi;
  coap_opt_t *o;
  coap_option_iterator_init(rcvd, &oi, COAP_OPT_ALL);
  volatile unsigned acc = 0;
  while ((o = coap_option_next(&oi))) { const uint8_t *v = coap_opt_value(o); for (unsigned i = 0; i < coap_opt_length(o); i++) acc += v[i]; }
  (void)acc;
  G->responses.push_back({std::vector<uint8_t>(tk.s, tk.s + tk.length), {(uint8_t)coap_pdu_get_code(rcvd), pl}});
  return COAP_RESPONSE_OK;
}
void c_nack(coap_session_t *, const coap_pdu_t *, const coap_nack_reason_t, const coap_mid_t) {}
void discard_log(coap_log_t, const char *) {}

// ---- hostile input construction ----
std::vector<uint8_t> mutate(Tape &t, std::vector<uint8_t> b, bool stream) {
  unsigned n = (unsigned)t.pick({4, 3, 1}) + 1;
  for (unsigned k = 0; k < n; k++) {
    size_t sz = b.size();
    switch (t.pick({4, 3, 4, 3, 2, 3, 1, 3, 1, 2})) {
    case 0: if (sz) b[t.range(0, (uint32_t)sz - 1)] = t.u8(); break;
    case 1: if (sz) b[t.range(0, (uint32_t)sz - 1)] ^= (uint8_t)(1u << t.range(0, 7)); break;
    case 2: if (sz) b.resize(t.range(0, (uint32_t)sz - 1)); break;                                    // truncation
    case 3: { auto ins = t.blob(t.range(1, 12)); size_t at = t.range(0, (uint32_t)sz); b.insert(b.begin() + (long)at, ins.begin(), ins.end()); break; }
    case 4: if (sz > 1) { size_t at = t.range(0, (uint32_t)sz - 2), len = t.range(1, (uint32_t)std::min<size_t>(8, sz - at - 1)); b.erase(b.begin() + (long)at, b.begin() + (long)(at + len)); } break;
    case 5: if (sz) b[0] = (uint8_t)((b[0] & 0xF0) | t.range(9, 15)); break;                           // TKL 9..15 (UDP) / TKL nibble (TCP)
    case 6: if (sz && !stream) b[0] = (uint8_t)((b[0] & 0x3F) | (t.range(0, 3) << 6)); else if (sz) b[0] = (uint8_t)((b[0] & 0x0F) | (t.range(13, 15) << 4)); break;  // version / TCP Len nibble
    case 7: {  // option delta / length nibble of some option-looking byte after the header
      size_t hdr = stream ? 2 : 4;
      if (sz > hdr) { size_t at = t.range((uint32_t)hdr, (uint32_t)sz - 1); b[at] = t.flag() ? (uint8_t)((b[at] & 0x0F) | (t.range(13, 15) << 4)) : (uint8_t)((b[at] & 0xF0) | t.range(13, 15)); }
      break;
    }
    case 8: b.push_back(0xFF); break;                                                                   // payload marker, nothing after it
    default: if (sz) { size_t at = t.range(0, (uint32_t)sz - 1); b[at] = (uint8_t)(t.flag() ? 0xFF : 0x00); } break;
    }
  }
  return b;
}

ref::Opt uri(const char *seg) { return ref::Opt{11, std::vector<uint8_t>(seg, seg + strlen(seg))}; }
void add_opt(ref::Msg &m, uint32_t num, std::vector<uint8_t> val) {
  m.opts.push_back(ref::Opt{num, std::move(val)});
  std::stable_sort(m.opts.begin(), m.opts.end(), [](const ref::Opt &a, const ref::Opt &b) { return a.num < b.num; });
}

// a well-formed request aimed at the server's state
ref::Msg state_request(Tape &t, uint16_t mid, const std::vector<uint8_t> &obs_token, const std::vector<uint8_t> &up_token, unsigned up_next, unsigned up_szx) {
  ref::Msg m;
  m.type = t.pick({3, 2}) ? 1 : 0;
  m.mid = mid;
  m.token = t.blob(t.range(0, 8));
  switch (t.pick({2, 3, 4, 4, 2, 4, 2})) {
  case 0: m.code = 1; add_opt(m, 11, {'c', 'a', 'n', 'a', 'r', 'y'}); break;
  case 1:  // observe (re-)register / cancel
    m.code = 1;
    if (t.flag()) m.token = obs_token;
    add_opt(m, 11, {'o', 'b', 's'});
    add_opt(m, 6, t.flag() ? std::vector<uint8_t>{} : std::vector<uint8_t>{(uint8_t)t.range(1, 3)});
    break;
  case 2: {  // Block1 block for the upload in progress (next, earlier, later, other size)
    m.code = t.flag() ? 3 : 2;
    if (t.pick({1, 3})) m.token = up_token;
    add_opt(m, 11, {'u', 'p'});
    unsigned num = t.pick({3, 1, 1, 1}) == 0 ? up_next : t.pick({1, 1}) ? t.range(0, 6) : t.range(0, 0xFFFFF);
    unsigned szx = t.pick({3, 1}) == 0 ? up_szx : t.range(0, 7);
    unsigned mflag = t.flag();
    add_opt(m, 27, simh::uint_opt(num << 4 | mflag << 3 | szx));
    if (t.chance(64)) add_opt(m, 60, simh::uint_opt(t.pick({1, 1}) ? t.range(0, 5000) : t.u32()));
    if (t.chance(64)) add_opt(m, 292, t.blob(t.range(0, 8)));
    size_t pl = szx < 7 && t.pick({3, 1}) == 0 ? (16u << szx) : t.range(0, 1100);
    m.payload = t.blob(pl);
    break;
  }
  case 3: {  // Block2 request for the download
    m.code = 1;
    add_opt(m, 11, {'b', 'i', 'g'});
    unsigned num = t.pick({3, 1}) == 0 ? t.range(0, 8) : t.range(0, 0xFFFFF);
    add_opt(m, 23, simh::uint_opt(num << 4 | (unsigned)t.flag() << 3 | t.range(0, 7)));
    if (t.chance(48)) add_opt(m, 4, t.blob(t.range(1, 8)));
    break;
  }
  case 4:  // empty / non-request codes
    m.code = (uint8_t)t.pick({1, 1, 1}) == 0 ? 0 : t.u8();
    m.type = (uint8_t)t.range(0, 3);
    if (m.code == 0 && t.flag()) { m.token.clear(); }
    break;
  case 5: {  // request decorated with many options
    m.code = (uint8_t)t.range(1, 7);
    add_opt(m, 11, t.flag() ? std::vector<uint8_t>{'a', 'n', 'y'} : t.blob(t.range(0, 12)));
    static const uint32_t NUMS[] = {1, 3, 4, 5, 7, 8, 9, 12, 14, 15, 16, 17, 19, 20, 21, 23, 27, 28, 31, 35, 39, 60, 252, 258, 292, 2048, 65000};
    unsigned k = t.range(0, 5);
    for (unsigned i = 0; i < k; i++) add_opt(m, NUMS[t.range(0, sizeof NUMS / sizeof NUMS[0] - 1)], t.blob(t.pick({3, 1}) == 0 ? t.range(0, 4) : t.range(0, 40)));
    if (t.flag()) m.payload = t.blob(t.range(1, 60));
    break;
  }
  default:  // Q-Block options (RFC 9177)
    m.code = t.flag() ? 1 : 2;
    add_opt(m, 11, t.flag() ? std::vector<uint8_t>{'b', 'i', 'g'} : std::vector<uint8_t>{'u', 'p'});
    add_opt(m, t.flag() ? 19 : 31, simh::uint_opt(t.range(0, 40) << 4 | (unsigned)t.flag() << 3 | t.range(0, 7)));
    if (m.code == 2) m.payload = t.blob(t.range(0, 300));
    break;
  }
  return m;
}

// a response-shaped message aimed at the client's state
ref::Msg state_response(Tape &t, uint16_t req_mid, const std::vector<uint8_t> &req_token, const std::vector<uint8_t> &wire_token) {
  ref::Msg m;
  m.type = (uint8_t)t.pick({1, 2, 4, 1});
  m.mid = t.pick({1, 3}) ? req_mid : t.u16();
  switch (t.pick({1, 4, 3})) { case 0: m.token = t.blob(t.range(0, 8)); break; case 1: m.token = wire_token; break; default: m.token = req_token; break; }
  static const uint8_t CODES[] = {0x45, 0x44, 0x5f, 0x41, 0x43, 0x84, 0x88, 0x8d, 0xa3, 0x00, 0xe1, 0xe5};
  m.code = t.pick({5, 1}) == 0 ? CODES[t.range(0, sizeof CODES - 1)] : t.u8();
  if (t.chance(120)) add_opt(m, 23, simh::uint_opt((t.pick({3, 1}) == 0 ? t.range(0, 6) : t.range(0, 0xFFFFF)) << 4 | (unsigned)t.flag() << 3 | t.range(0, 7)));
  if (t.chance(60)) add_opt(m, 27, simh::uint_opt(t.range(0, 6) << 4 | (unsigned)t.flag() << 3 | t.range(0, 7)));
  if (t.chance(80)) add_opt(m, 6, simh::uint_opt(t.pick({1, 1}) ? t.range(0, 30) : t.range(0, 0xFFFFFF)));
  if (t.chance(80)) add_opt(m, 4, t.blob(t.range(1, 8)));
  if (t.chance(48)) add_opt(m, 28, simh::uint_opt(t.pick({1, 1}) ? t.range(0, 4000) : t.u32()));
  if (t.chance(32)) add_opt(m, 60, simh::uint_opt(t.range(0, 4000)));
  if (t.chance(32)) add_opt(m, 14, simh::uint_opt(t.u32()));
  if (t.chance(32)) add_opt(m, 252, t.blob(t.range(0, 40)));
  if (t.chance(24)) add_opt(m, 9, t.blob(t.range(0, 12)));
  if (t.chance(24)) add_opt(m, 12, simh::uint_opt(t.range(0, 70000)));
  if (t.chance(160)) m.payload = t.blob(t.pick({3, 1}) == 0 ? t.range(1, 64) : t.range(1, 1100));
  return m;
}

struct Segment { size_t from = 0; };

}  // namespace

void verif_init() {
  coap_startup();
  if (!getenv("C02_DEBUG")) { coap_set_log_handler(discard_log); coap_set_show_pdu_output(0); }   // coap_show_pdu still walks the PDU, its lines go to the handler
  BIG.resize(3000);
  for (size_t i = 0; i < BIG.size(); i++) BIG[i] = (uint8_t)('a' + i % 26);
}

int verif_case(const uint8_t *tape, size_t tlen, Info *info) {
  Tape t(tape, tlen);
  Case cs;
  G = &cs;
  World w;
  cs.w = &w;
  seed_prng(t.u16());
  static const coap_log_t LEVELS[] = {COAP_LOG_EMERG, COAP_LOG_WARN, COAP_LOG_INFO, COAP_LOG_DEBUG, COAP_LOG_OSCORE};
  coap_set_log_level(LEVELS[t.pick({2, 1, 1, 4, 2})]);
  if (getenv("C02_DEBUG")) coap_set_log_level(COAP_LOG_DEBUG);
  bool client_role = t.pick({5, 2}) == 1;
  int transport = client_role ? 0 : (int)t.pick({5, 3, 2});   // 0 UDP 1 TCP 2 WS
  uint32_t block_mode = COAP_BLOCK_USE_LIBCOAP | (t.flag() ? COAP_BLOCK_SINGLE_BODY : 0);
  int verdict = HELD;
  bool nontrivial = false;
  unsigned hostile_count = 0, malformed_count = 0;
  std::string hist;
  char hb[160];
#define FAIL(...) do { info->fail(__VA_ARGS__); verdict = VIOLATION; goto teardown; } while (0)

  coap_context_t *ctx = coap_new_context(nullptr);
  if (!ctx) { G = nullptr; return OUT_OF_DOMAIN; }
  coap_context_set_block_mode(ctx, block_mode);
  w.add_context(ctx);
  Addr srv_udp = Addr::v4(10, 0, 0, 1, 5683), srv_ws = Addr::v4(10, 0, 0, 1, 8080);
  Addr hostile = Addr::v4(10, 0, 5, 1, 50000);

  if (!client_role) {
    // ================= server role =================
    coap_address_t la;
    srv_udp.to_coap(&la);
    coap_new_endpoint(ctx, &la, COAP_PROTO_UDP);
    coap_new_endpoint(ctx, &la, COAP_PROTO_TCP);
    srv_ws.to_coap(&la);
    coap_new_endpoint(ctx, &la, COAP_PROTO_WS);
    struct { const char *name; coap_method_handler_t h; int methods; } RES[] = {{"canary", h_canary, 1}, {"obs", h_obs, 1}, {"up", h_up, 0x6}, {"big", h_big, 1}, {"any", h_any, 0x7f}};
    coap_resource_t *obs_res = nullptr;
    for (auto &r : RES) {
      coap_resource_t *res = coap_resource_init(coap_make_str_const(r.name), 0);
      for (int m = 1; m <= 7; m++) if (r.methods & (1 << (m - 1))) coap_register_handler(res, (coap_request_t)m, r.h);
      if (r.h == h_obs) { coap_resource_set_get_observable(res, 1); obs_res = res; }
      coap_add_resource(ctx, res);
    }
    uint16_t mid = 0x4000;
    std::vector<uint8_t> obs_token = {0x0b, 0x5e}, up_token = {0x01, 0xb1};
    unsigned up_next = 0, up_szx = 2;

    if (transport == 0) {
      Peer *H = w.add_peer(hostile);
      uint16_t last_notif_mid = 0;
      H->on_rx = [&](World &ww, Peer &p, const Datagram &d) {
        ref::Msg m;
        if (!simh::parse(d.data, &m)) return;
        if (m.code >= 64 && simh::find_opt(m, 6)) last_notif_mid = m.mid;
        if (m.type == 0) ww.peer_send(&p, d.src, simh::ack(m.mid));
      };
      // ---- prefix ----
      int prefix = (int)t.pick({2, 3, 3, 3});
      if (prefix == 1) {
        ref::Msg m; m.type = 0; m.code = 1; m.mid = mid++; m.token = obs_token; add_opt(m, 11, {'o', 'b', 's'}); add_opt(m, 6, {});
        w.peer_send(H, srv_udp, ref::encode(m, ref::F_UDP));
      } else if (prefix == 2) {
        up_szx = t.range(0, 6);
        unsigned k = t.range(1, 4);
        for (unsigned i = 0; i < k; i++) {
          ref::Msg m; m.type = 0; m.code = 2; m.mid = mid++; m.token = up_token; add_opt(m, 11, {'u', 'p'});
          add_opt(m, 27, simh::uint_opt(i << 4 | 8 | up_szx));
          if (i == 0 && t.flag()) add_opt(m, 60, simh::uint_opt(20000));
          m.payload = std::vector<uint8_t>(16u << up_szx, (uint8_t)('A' + i));
          w.peer_send(H, srv_udp, ref::encode(m, ref::F_UDP));
          w.run(w.now + 1, 2000);
        }
        up_next = k;
      } else if (prefix == 3) {
        ref::Msg m; m.type = 0; m.code = 1; m.mid = mid++; m.token = {0xb2}; add_opt(m, 11, {'b', 'i', 'g'});
        if (t.flag()) add_opt(m, 23, simh::uint_opt(0 << 4 | t.range(0, 6)));
        w.peer_send(H, srv_udp, ref::encode(m, ref::F_UDP));
      }
      w.run(w.now + 5, 4000);
      snprintf(hb, sizeof hb, "server/UDP prefix=%s; ", prefix == 0 ? "none" : prefix == 1 ? "observe" : prefix == 2 ? "block1-partial" : "block2-started");
      hist += hb;
      if (prefix) info->label(prefix == 1 ? "state:observation" : prefix == 2 ? "state:block1-upload" : "state:block2-download");
      auto deliver_udp = [&](const std::vector<uint8_t> &dg, const char *what) -> bool {
        hostile_count++;
        ref::DecodeResult dr = ref::decode(dg.data(), dg.size(), ref::F_UDP, false);
        bool malformed = !dr.ok;
        size_t from = w.trace.size();
        unsigned calls_before = cs.handler_calls;
        std::set<std::vector<uint8_t>> earlier;
        for (auto &e : w.trace) if (e.kind == EV_SEND && e.from_lib) earlier.insert(e.data);
        w.peer_send(H, srv_udp, dg);
        w.run(w.now, 20000);
        snprintf(hb, sizeof hb, "%s[%zu]%s:%s ", what, dg.size(), malformed ? "(malformed)" : "", hex(dg, 24).c_str());
        hist += hb;
        if (prefix || (malformed && dr.past_header)) nontrivial = true;
        if (malformed) {
          malformed_count++;
          if (cs.handler_calls != calls_before) { info->fail("a datagram the reference decoder rejects (%s) was handed to an application handler: %s", dr.why, hex(dg, 60).c_str()); return false; }
          unsigned replies = 0;
          for (size_t k = from; k < w.trace.size(); k++) {
            auto &e = w.trace[k];
            if (e.kind != EV_SEND || !e.from_lib || e.dst != hostile || earlier.count(e.data)) continue;
            replies++;
            ref::Msg r;
            if (!simh::parse(e.data, &r)) { info->fail("reply to malformed input is itself malformed: %s", hex(e.data, 40).c_str()); return false; }
            bool ok = (r.type == 3 && r.code == 0) || (r.code >> 5) == 4 || (r.code >> 5) == 5;
            if (!ok) { info->fail("malformed datagram (%s) %s answered with %s %u.%02u - only Reset or an error reply is allowed", dr.why, hex(dg, 40).c_str(), simh::type_name(r.type).c_str(), r.code >> 5, r.code & 31); return false; }
          }
          if (replies > 1) { info->fail("malformed datagram (%s) %s triggered %u new datagrams", dr.why, hex(dg, 40).c_str(), replies); return false; }
        }
        return true;
      };
      // ---- deliveries ----
      unsigned n = t.range(1, 12);
      for (unsigned i = 0; i < n && !w.hit_cap; i++) {
        size_t kind = t.pick({3, 8, 2, 2, 1, 1});
        if (kind == 2) { static const uint32_t J[] = {0, 1000, 100000, 400000}; uint32_t ms = J[t.range(0, 3)]; w.run(w.now + ms, 60000); snprintf(hb, sizeof hb, "jump(%ums) ", ms); hist += hb; continue; }
        if (kind == 3) { cs.obs_state++; coap_resource_notify_observers(obs_res, nullptr); w.run(w.now + 1, 4000); hist += "change "; continue; }
        if (kind == 4) { w.peer_send(H, srv_udp, simh::rst(last_notif_mid)); w.run(w.now, 4000); hist += "rst-notification "; continue; }
        std::vector<uint8_t> dg;
        bool raw = kind == 0;
        if (raw) dg = t.blob(t.pick({6, 2, 1}) == 0 ? t.range(0, 40) : t.pick({1, 1}) ? t.range(40, 300) : t.range(300, 1600));
        else {
          ref::Msg m = state_request(t, mid++, obs_token, up_token, up_next, up_szx);
          dg = ref::encode(m, ref::F_UDP);
          if (kind == 1) dg = mutate(t, dg, false);
        }
        if (!deliver_udp(dg, raw ? "raw" : kind == 1 ? "mut" : "valid")) { verdict = VIOLATION; goto teardown; }
      }
      // ---- structured extras (drawn after everything else, so that earlier tapes keep their meaning) ----
      if (!w.hit_cap) switch (t.pick({6, 2, 2})) {
      case 1: {
        // a long run of parseable options, then a broken one: what the option dump of a rejected PDU has to cope with
        ref::Msg m;
        m.type = (uint8_t)t.range(0, 1); m.code = (uint8_t)t.range(1, 4); m.mid = mid++; m.token = t.blob(t.range(0, 8));
        size_t target = t.range(900, 1120), total = 0;
        if (t.flag()) { add_opt(m, 2048 + 2 * t.range(0, 40), t.blob(target)); total = target; }
        else while (total < target) { size_t l = t.range(0, 24); add_opt(m, t.flag() ? 15 : 2048 + 2 * t.range(0, 3), t.blob(l)); total += l + 2; if (m.opts.size() > 400) break; }
        std::vector<uint8_t> dg = ref::encode(m, ref::F_UDP);
        switch (t.pick({3, 2, 2, 2})) {
        case 0: dg.push_back(0xF1); dg.push_back(0x00); break;                                   // reserved delta nibble
        case 1: dg.push_back(0xD0); break;                                                       // extended delta missing
        case 2: dg.push_back(0x1D); dg.push_back((uint8_t)t.range(0, 255)); break;               // value longer than the rest
        default: dg = mutate(t, dg, false); break;
        }
        if (dg.size() > 1152) dg.resize(1152);
        info->label("jumbo-options");
        if (!deliver_udp(dg, "jumbo")) { verdict = VIOLATION; goto teardown; }
        break;
      }
      case 2: {
        // a Block1 upload whose (well-formed) blocks arrive in a generated order: gaps, then blocks in front of what was received
        unsigned szx = t.range(0, 2), n = t.range(3, 9);
        bool with_size1 = t.chance(60);
        std::vector<unsigned> nums;
        unsigned at = t.range(1, 30);
        unsigned asc = t.range(2, 4);
        for (unsigned i = 0; i < n; i++) {
          if (i < asc) { nums.push_back(at); at += t.range(2, 12); }
          else nums.push_back(t.pick({3, 1}) == 0 ? t.range(0, at + 5) : t.range(0, 200));
        }
        std::vector<uint8_t> tok = t.flag() ? up_token : t.blob(t.range(1, 4));
        info->label("block1-out-of-order-burst");
        for (unsigned i = 0; i < n; i++) {
          ref::Msg m; m.type = (uint8_t)t.range(0, 1); m.code = 2; m.mid = mid++; m.token = tok; add_opt(m, 11, {'u', 'p'});
          add_opt(m, 27, simh::uint_opt(nums[i] << 4 | 8 | szx));
          if (with_size1) add_opt(m, 60, simh::uint_opt(100000));
          m.payload = std::vector<uint8_t>(16u << szx, (uint8_t)('a' + i));
          snprintf(hb, sizeof hb, "blk%u", nums[i]);
          if (!deliver_udp(ref::encode(m, ref::F_UDP), hb)) { verdict = VIOLATION; goto teardown; }
        }
        break;
      }
      default: break;
      }
      w.run(w.now + 300, 60000);
      if (w.hit_cap) { info->inconclusive = true; goto teardown; }
      // canary from the hostile peer itself
      {
        ref::Msg m; m.type = 0; m.code = 1; m.mid = 0x7e57; m.token = {0xca, 0x11}; add_opt(m, 11, {'c', 'a', 'n', 'a', 'r', 'y'});
        size_t from = w.trace.size();
        w.peer_send(H, srv_udp, ref::encode(m, ref::F_UDP));
        w.run(w.now + 10, 20000);
        bool ok = false;
        for (size_t k = from; k < w.trace.size(); k++) {
          auto &e = w.trace[k];
          ref::Msg r;
          if (e.kind == EV_SEND && e.from_lib && e.dst == hostile && simh::parse(e.data, &r) && r.type == 2 && r.mid == 0x7e57 && r.code == 0x45 && r.token == m.token && std::string(r.payload.begin(), r.payload.end()) == "canary") ok = true;
        }
        if (!ok) FAIL("after the hostile inputs a well-formed CON GET /canary from the same peer is not answered with ACK 2.05 'canary'");
      }
    } else {
      // ---- stream transports ----
      bool ws = transport == 2;
      unsigned conn_no = 0;
      StreamPeer *sp = nullptr;
      auto open_conn = [&]() {
        sp = w.add_stream_peer(Addr::v4(10, 0, 5, 1, (uint16_t)(50000 + conn_no++)), false);
        w.stream_connect(sp, ws ? srv_ws : srv_udp);
        w.run(w.now + 5, 2000);
      };
      auto frame = [&](const std::vector<uint8_t> &msg, Tape *tt) {
        if (!ws) return msg;
        std::vector<uint8_t> out;
        uint8_t mask[4] = {0x11, 0x22, 0x33, 0x44};
        if (tt) for (auto &b : mask) b = tt->u8();
        ws_frame(out, msg, true, tt ? (int)tt->pick({6, 1, 1}) : 0, 2, mask);
        return out;
      };
      auto handshake = [&]() {
        std::string req = "GET /.well-known/coap HTTP/1.1\r\nHost: server.example\r\nUpgrade: websocket\r\nConnection: Upgrade\r\nSec-WebSocket-Key: dGhlIHNhbXBsZSBub25jZQ==\r\nSec-WebSocket-Protocol: coap\r\nSec-WebSocket-Version: 13\r\n\r\n";
        return std::vector<uint8_t>(req.begin(), req.end());
      };
      auto send_cut = [&](const std::vector<uint8_t> &bytes, Tape *tt) {
        std::vector<size_t> chunks;
        size_t left = bytes.size();
        while (left) {
          size_t c = tt && tt->pick({1, 2}) ? std::min<size_t>(left, tt->pick({1, 1}) ? tt->range(1, 4) : tt->range(1, 300)) : left;
          chunks.push_back(c);
          left -= c;
        }
        if (bytes.empty()) return;
        w.stream_send(sp, bytes, chunks, tt ? tt->range(0, 2) : 0);
        w.run(w.now + 20 + 3 * chunks.size(), 60000);
      };
      ref::Msg csm; csm.code = 0xE1;
      const ref::Framing FR = ws ? ref::F_WS : ref::F_TCP;   // RFC 8323: over WebSockets the Len nibble is 0, the frame carries the length
      open_conn();
      int prefix = (int)t.pick({1, 4, 2});   // 0 nothing sent yet  1 (handshake +) CSM done  2 WS: part of the handshake / TCP: CSM + a Block1 block
      if (prefix >= 1) {
        std::vector<uint8_t> pre;
        if (ws) { pre = handshake(); if (prefix == 2) pre.resize(t.range(1, (uint32_t)pre.size() - 1)); }
        if (!(ws && prefix == 2)) { auto c = frame(ref::encode(csm, FR), nullptr); pre.insert(pre.end(), c.begin(), c.end()); }
        if (!ws && prefix == 2) {
          ref::Msg m; m.code = 2; m.token = up_token; add_opt(m, 11, {'u', 'p'}); add_opt(m, 27, simh::uint_opt(0 << 4 | 8 | 2)); m.payload = std::vector<uint8_t>(64, 'A');
          auto c = ref::encode(m, FR); pre.insert(pre.end(), c.begin(), c.end());
          up_next = 1;
        }
        send_cut(pre, nullptr);
      }
      snprintf(hb, sizeof hb, "server/%s prefix=%d; ", ws ? "WS" : "TCP", prefix);
      hist += hb;
      info->label(ws ? (prefix == 0 ? "state:ws-before-handshake" : prefix == 1 ? "state:ws-established" : "state:ws-mid-handshake") : (prefix == 0 ? "state:tcp-before-csm" : "state:tcp-established"));
      unsigned n = t.range(1, 10);
      std::vector<uint8_t> rev(tape, tape + tlen);
      std::reverse(rev.begin(), rev.end());
      Tape tb(rev.data(), rev.size());
      for (unsigned i = 0; i < n && !w.hit_cap; i++) {
        if (sp->peer_closed) {
          // libcoap closed the connection (a legitimate reaction): carry on with a new, established one
          open_conn();
          std::vector<uint8_t> pre;
          if (ws) pre = handshake();
          auto c = frame(ref::encode(csm, FR), nullptr);
          pre.insert(pre.end(), c.begin(), c.end());
          send_cut(pre, nullptr);
          hist += "reconnect ";
          info->label("connection-closed-by-libcoap");
        }
        size_t kind = t.pick({3, 8, 2, 1, 2});
        if (ws && tb.chance(56)) {
          // (drawn from the END of the tape) a frame that announces more than libcoap's receive buffer takes - 16 bit and 64 bit length
          // forms, up to the top bit set - with part or all of the announced payload right behind the header, in one write or cut
          static const uint64_t N[] = {1473, 1600, 3000, 5000, 65535, 65536, 70000, 0x100000000ull, 0x7fffffffffffffffull, 0x8000000000000000ull, 0xffffffffffffffffull};
          uint64_t n = N[tb.range(0, 10)];
          std::vector<uint8_t> bytes = {(uint8_t)(0x80 | (tb.chance(200) ? 2 : tb.range(0, 15)))};
          bool masked = tb.chance(230);
          if (n < 65536) { bytes.push_back((uint8_t)((masked ? 0x80 : 0) | 126)); bytes.push_back((uint8_t)(n >> 8)); bytes.push_back((uint8_t)n); }
          else { bytes.push_back((uint8_t)((masked ? 0x80 : 0) | 127)); for (int sh = 56; sh >= 0; sh -= 8) bytes.push_back((uint8_t)(n >> sh)); }
          if (masked) for (int j = 0; j < 4; j++) bytes.push_back(tb.u8());
          size_t fill = tb.pick({1, 3}) ? (size_t)std::min<uint64_t>(n, tb.pick({1, 1}) ? tb.range(1, 300) : tb.range(300, 6000)) : 0;
          bytes.insert(bytes.end(), fill, (uint8_t)'A');
          hostile_count++;
          nontrivial = true;
          snprintf(hb, sizeof hb, "oversized-frame(len=%llu,+%zuB) ", (unsigned long long)n, fill);
          hist += hb;
          info->label("ws-oversized-frame");
          if (tb.flag()) { w.stream_send(sp, bytes, {bytes.size()}); w.run(w.now + 30, 60000); }
          else send_cut(bytes, &tb);
          continue;
        }
        if (kind == 3) { static const uint32_t J[] = {0, 1000, 100000, 400000}; uint32_t ms = J[t.range(0, 3)]; w.run(w.now + ms, 60000); snprintf(hb, sizeof hb, "jump(%ums) ", ms); hist += hb; continue; }
        std::vector<uint8_t> bytes;
        if (kind == 0) bytes = t.blob(t.pick({6, 2, 1}) == 0 ? t.range(1, 40) : t.pick({1, 1}) ? t.range(40, 300) : t.range(300, 1600));
        else {
          ref::Msg m = state_request(t, 0, obs_token, up_token, up_next, up_szx);
          if (kind == 4) { m = ref::Msg(); m.code = (uint8_t)(0xE1 + t.range(0, 4)); m.token = t.blob(t.range(0, 8)); unsigned k = t.range(0, 3); for (unsigned j = 0; j < k; j++) add_opt(m, t.range(1, 8), t.blob(t.range(0, 6))); }
          std::vector<uint8_t> msg = ref::encode(m, FR);
          bool inner = t.flag();
          if (kind != 2 && inner) msg = mutate(t, msg, true);         // damage inside the frame
          bytes = frame(msg, &t);
          if (kind != 2 && !inner) bytes = mutate(t, bytes, true);     // damage to the framing itself
          if (ws && t.chance(40)) {  // control frames / other opcodes
            std::vector<uint8_t> ctl;
            uint8_t mask[4] = {1, 2, 3, 4};
            ws_frame(ctl, t.blob(t.range(0, 130)), t.pick({1, 6}) != 0, (int)t.pick({4, 1, 1}), (uint8_t)t.range(0, 15), mask);
            bytes.insert(t.flag() ? bytes.begin() : bytes.end(), ctl.begin(), ctl.end());
          }
        }
        hostile_count++;
        nontrivial = true;
        snprintf(hb, sizeof hb, "%s[%zu]:%s ", kind == 0 ? "raw" : kind == 2 ? "valid" : kind == 4 ? "sig" : "mut", bytes.size(), hex(bytes, 20).c_str());
        hist += hb;
        send_cut(bytes, &t);
      }
      w.run(w.now + 300, 60000);
      if (w.hit_cap) { info->inconclusive = true; goto teardown; }
      // canary over a new connection of the attacked transport
      {
        open_conn();
        std::vector<uint8_t> pre;
        if (ws) pre = handshake();
        auto c = frame(ref::encode(csm, FR), nullptr);
        pre.insert(pre.end(), c.begin(), c.end());
        ref::Msg m; m.code = 1; m.token = {0xca, 0x12}; add_opt(m, 11, {'c', 'a', 'n', 'a', 'r', 'y'});
        c = frame(ref::encode(m, FR), nullptr);
        pre.insert(pre.end(), c.begin(), c.end());
        send_cut(pre, nullptr);
        w.run(w.now + 100, 20000);
        // decode what came back
        std::vector<uint8_t> rx = sp->rx;
        std::vector<std::vector<uint8_t>> msgs;
        if (ws) {
          std::string s(rx.begin(), rx.end());
          size_t e = s.find("\r\n\r\n");
          size_t p = e == std::string::npos ? rx.size() : e + 4;
          while (p + 2 <= rx.size()) {
            uint8_t b1 = rx[p + 1];
            size_t len = b1 & 0x7f, h = 2;
            if (len == 126) { if (p + 4 > rx.size()) break; len = (size_t)rx[p + 2] << 8 | rx[p + 3]; h = 4; }
            else if (len == 127) break;
            if (b1 & 0x80) h += 4;
            if (p + h + len > rx.size()) break;
            if ((rx[p] & 0x0f) == 2) msgs.push_back(std::vector<uint8_t>(rx.begin() + (long)(p + h), rx.begin() + (long)(p + h + len)));
            p += h + len;
          }
        } else {
          size_t p = 0;
          while (p < rx.size()) {
            unsigned ln = rx[p] >> 4, tkl = rx[p] & 15;
            size_t ext = ln == 13 ? 1 : ln == 14 ? 2 : ln == 15 ? 4 : 0, len = ln;
            if (p + 1 + ext > rx.size()) break;
            if (ln == 13) len = 13 + rx[p + 1];
            else if (ln == 14) len = 269 + ((size_t)rx[p + 1] << 8 | rx[p + 2]);
            else if (ln == 15) break;
            size_t tot = 1 + ext + 1 + tkl + len;
            if (tkl > 8 || p + tot > rx.size()) break;
            msgs.push_back(std::vector<uint8_t>(rx.begin() + (long)p, rx.begin() + (long)(p + tot)));
            p += tot;
          }
        }
        bool ok = false;
        for (auto &raw : msgs) {
          ref::DecodeResult dr = ref::decode(raw.data(), raw.size(), FR, false);
          if (dr.ok && dr.msg.code == 0x45 && dr.msg.token == m.token && std::string(dr.msg.payload.begin(), dr.msg.payload.end()) == "canary") ok = true;
        }
        if (!ok) FAIL("after the hostile stream input a well-formed GET /canary over a new %s connection is not answered 2.05 'canary' (%zu bytes came back)", ws ? "WebSocket" : "TCP", rx.size());
      }
    }
    // canary from a new UDP peer
    {
      Addr fresh = Addr::v4(10, 0, 6, 1, 51000);
      Peer *C = w.add_peer(fresh);
      ref::Msg m; m.type = 0; m.code = 1; m.mid = 0x1234; m.token = {0xca, 0x13}; add_opt(m, 11, {'c', 'a', 'n', 'a', 'r', 'y'});
      size_t from = w.trace.size();
      w.peer_send(C, srv_udp, ref::encode(m, ref::F_UDP));
      w.run(w.now + 10, 20000);
      bool ok = false;
      for (size_t k = from; k < w.trace.size(); k++) {
        auto &e = w.trace[k];
        ref::Msg r;
        if (e.kind == EV_SEND && e.from_lib && e.dst == fresh && simh::parse(e.data, &r) && r.type == 2 && r.mid == 0x1234 && r.code == 0x45 && r.token == m.token && std::string(r.payload.begin(), r.payload.end()) == "canary") ok = true;
      }
      if (!ok) FAIL("after the hostile inputs a well-formed CON GET /canary from a new peer is not answered with ACK 2.05 'canary'");
    }
  } else {
    // ================= client role (UDP) =================
    coap_register_response_handler(ctx, c_resp);
    coap_register_nack_handler(ctx, c_nack);
    Peer *S = w.add_peer(srv_udp);
    std::vector<Datagram> rx;
    bool answer_canary = false;
    S->on_rx = [&](World &ww, Peer &p, const Datagram &d) {
      rx.push_back(d);
      ref::Msg m;
      if (!answer_canary || !simh::parse(d.data, &m) || !ref::is_request(m.code)) return;
      const ref::Opt *u = simh::find_opt(m, 11);
      if (u && std::string(u->val.begin(), u->val.end()) == "canary")
        ww.peer_send(&p, d.src, simh::response(m.type == 0 ? 2 : 1, 0x45, m.mid, m.token, {'c', 'a', 'n', 'a', 'r', 'y'}));
    };
    coap_address_t dst;
    srv_udp.to_coap(&dst);
    coap_session_t *session = coap_new_client_session(ctx, nullptr, &dst, COAP_PROTO_UDP);
    if (!session) { info->inconclusive = true; goto teardown; }
    int prefix = (int)t.pick({3, 3, 3, 2});   // 0 plain GET  1 observe GET  2 block-wise PUT  3 GET that will be answered block-wise
    std::vector<uint8_t> app_token = {0xa1, 0xa2, 0xa3};
    // (last tape bytes, longer tapes) the block-wise upload is a FETCH with Observe (libcoap keeps one token per block for it), and the peer's
    // 2.31 Continue may name a block further ahead than the one just sent
    bool fetch_obs = prefix == 2 && tlen >= 48 && (tape[tlen - 1] & 1);
    unsigned skip_ahead = fetch_obs || (tlen >= 48 && (tape[tlen - 1] & 2)) ? tape[tlen - 2] % 4 : 0;
    {
      coap_pdu_t *pdu = coap_new_pdu(t.flag() ? COAP_MESSAGE_CON : COAP_MESSAGE_NON, fetch_obs ? COAP_REQUEST_CODE_FETCH : prefix == 2 ? COAP_REQUEST_CODE_PUT : COAP_REQUEST_CODE_GET, session);
      coap_add_token(pdu, app_token.size(), app_token.data());
      if (prefix == 1 || fetch_obs) coap_add_option(pdu, COAP_OPTION_OBSERVE, 0, nullptr);
      coap_add_option(pdu, COAP_OPTION_URI_PATH, 3, (const uint8_t *)"res");
      if (fetch_obs) { uint8_t cf = 42; coap_add_option(pdu, COAP_OPTION_CONTENT_FORMAT, 1, &cf); }
      if (prefix == 2) {
        static std::vector<uint8_t> body(2500, 'u');
        coap_add_data_large_request(session, pdu, body.size(), body.data(), nullptr, nullptr);
      }
      coap_send(session, pdu);
    }
    w.run(w.now + 1, 4000);
    Addr cli = rx.empty() ? Addr::v4(10, 0, 0, 2, 40000) : rx[0].src;
    snprintf(hb, sizeof hb, "client/UDP request=%s; ", prefix == 0 ? "GET" : prefix == 1 ? "GET+Observe" : prefix == 2 ? (fetch_obs ? "FETCH+Observe block-wise" : "PUT block-wise") : "GET (block-wise answer)");
    hist += hb;
    info->label(prefix == 0 ? "state:client-request" : prefix == 1 ? "state:client-observe" : prefix == 2 ? "state:client-block1" : "state:client-block2");
    unsigned n = t.range(1, 12);
    for (unsigned i = 0; i < n && !w.hit_cap; i++) {
      size_t kind = t.pick({3, 8, 3, 2});
      if (kind == 3) { static const uint32_t J[] = {0, 1000, 100000, 400000}; uint32_t ms = J[t.range(0, 3)]; w.run(w.now + ms, 60000); snprintf(hb, sizeof hb, "jump(%ums) ", ms); hist += hb; continue; }
      // the latest request the client has on the wire
      uint16_t req_mid = 0;
      std::vector<uint8_t> wire_token = app_token;
      for (auto it = rx.rbegin(); it != rx.rend(); ++it) { ref::Msg q; if (simh::parse(it->data, &q) && ref::is_request(q.code)) { req_mid = q.mid; wire_token = q.token; break; } }
      std::vector<uint8_t> dg;
      if (kind == 0) dg = t.blob(t.pick({6, 2, 1}) == 0 ? t.range(0, 40) : t.pick({1, 1}) ? t.range(40, 300) : t.range(300, 1600));
      else {
        ref::Msg m = state_response(t, req_mid, app_token, wire_token);
        if (kind == 2) {
          // a plausible continuation: the block the client asked for / 2.31 Continue
          ref::Msg q;
          if (!rx.empty() && simh::parse(rx.back().data, &q)) {
            const ref::Opt *b1 = simh::find_opt(q, 27), *b2 = simh::find_opt(q, 23);
            m = ref::Msg(); m.type = q.type == 0 ? 2 : 1; m.mid = q.mid; m.token = q.token;
            if (b1 && (simh::opt_uint(b1->val) & 8)) { m.code = 0x5f; add_opt(m, 27, simh::uint_opt(simh::opt_uint(b1->val) + (skip_ahead << 4))); }
            else if (prefix == 3 || b2) {
              unsigned num = b2 ? simh::opt_uint(b2->val) >> 4 : 0, szx = b2 ? simh::opt_uint(b2->val) & 7 : 2;
              if (szx > 6) szx = 6;
              m.code = 0x45; add_opt(m, 23, simh::uint_opt(num << 4 | (num < 3 ? 8u : 0u) | szx)); add_opt(m, 4, {0x77}); m.payload = std::vector<uint8_t>(16u << szx, (uint8_t)('0' + num));
            } else { m.code = b1 ? 0x44 : 0x45; m.payload = {'o', 'k'}; if (prefix == 1) add_opt(m, 6, simh::uint_opt(5 + i)); }
          }
        }
        dg = ref::encode(m, ref::F_UDP);
        if (kind == 1) dg = mutate(t, dg, false);
      }
      hostile_count++;
      nontrivial = true;
      ref::DecodeResult dr = ref::decode(dg.data(), dg.size(), ref::F_UDP, false);
      bool malformed = !dr.ok;
      size_t from = w.trace.size();
      unsigned calls_before = cs.handler_calls;
      std::set<std::vector<uint8_t>> earlier;
      for (auto &e : w.trace) if (e.kind == EV_SEND && e.from_lib) earlier.insert(e.data);
      w.peer_send(S, cli, dg);
      w.run(w.now, 20000);
      snprintf(hb, sizeof hb, "%s[%zu]%s:%s ", kind == 0 ? "raw" : kind == 1 ? "mut" : "valid", dg.size(), malformed ? "(malformed)" : "", hex(dg, 24).c_str());
      hist += hb;
      if (malformed) {
        malformed_count++;
        if (cs.handler_calls != calls_before) FAIL("a datagram the reference decoder rejects (%s) was handed to the response handler: %s", dr.why, hex(dg, 60).c_str());
        unsigned replies = 0;
        for (size_t k = from; k < w.trace.size(); k++) {
          auto &e = w.trace[k];
          if (e.kind != EV_SEND || !e.from_lib || earlier.count(e.data)) continue;
          replies++;
          ref::Msg r;
          if (!simh::parse(e.data, &r)) FAIL("reply to malformed input is itself malformed: %s", hex(e.data, 40).c_str());
          if (!(r.type == 3 && r.code == 0)) FAIL("malformed datagram (%s) %s made the client send %s %u.%02u - only Reset is allowed", dr.why, hex(dg, 40).c_str(), simh::type_name(r.type).c_str(), r.code >> 5, r.code & 31);
        }
        if (replies > 1) FAIL("malformed datagram (%s) %s triggered %u new datagrams", dr.why, hex(dg, 40).c_str(), replies);
      }
    }
    w.run(w.now + 300, 60000);
    if (w.hit_cap) { info->inconclusive = true; goto teardown; }
    // canary: a fresh request is answered into the response handler
    {
      answer_canary = true;
      std::vector<uint8_t> tok = {0xca, 0x14, 0x15};
      coap_pdu_t *pdu = coap_new_pdu(COAP_MESSAGE_CON, COAP_REQUEST_CODE_GET, session);
      if (!pdu) FAIL("after the hostile inputs the client cannot create a request");
      coap_add_token(pdu, tok.size(), tok.data());
      coap_add_option(pdu, COAP_OPTION_URI_PATH, 6, (const uint8_t *)"canary");
      if (coap_send(session, pdu) == COAP_INVALID_MID) FAIL("after the hostile inputs coap_send() of a fresh GET fails");
      // NSTART: an earlier Confirmable exchange may still be outstanding; the canary is sent once that one is over
      w.run(w.now + 400000, 200000);
      bool ok = false;
      for (auto &r : cs.responses) if (r.first == tok && r.second.first == 0x45 && r.second.second == "canary") ok = true;
      if (!ok) FAIL("after the hostile inputs a fresh GET /canary of the client is not delivered to the response handler as 2.05 'canary' (%zu responses seen)", cs.responses.size());
    }
  }
teardown:
  info->nontrivial = nontrivial && hostile_count > 0;
  if (malformed_count) info->label("malformed-datagram");
  if (w.hit_cap) info->label("step-cap");
  info->rs(hist);
  info->mix(hist.data(), hist.size());
  w.remove_context(ctx);
  coap_free_context(ctx);
  G = nullptr;
  return verdict;
}
