// C13 — advertised thread safety: concurrent API use is serialised and never deadlocks.
// Generated multi-thread programs against one server and one client context on loopback sockets, both I/O loops in their own threads,
// every callback type registered and re-entering the public API; built and run under ThreadSanitizer; lock-state invariants.
#include "lc.h"
#include <atomic>
#include <csignal>
#include <cstring>
#include <pthread.h>
#include <thread>
using namespace verif;

const char *verif_property_id = "C13";
const char *verif_rule =
    "tape -> program of 2..8 application threads, each a list of 3..24 operations from {send CON / NON GET (plain, observable with Observe=0, delayed through an async entry), "
    "coap_resource_notify_observers, client session create + release, server resource add + delete, cache key derive + delete, ping, pause (every other one interrupts both I/O threads with a handled signal: EINTR), request to a port nobody listens on (ICMP error, NACK without PDU), fan-out over 14 sessions (more ready sockets than one epoll_wait returns; optionally a slow response handler), 0..2 ms pause}, run against one server and one client context "
    "(UDP on 127.0.0.1) whose coap_io_process() loops run in two further threads; request, response, NACK, event, ping and pong handlers are registered and re-enter the public API "
    "(coap_new_pdu + coap_send of a follow-up request from the response handler, coap_resource_notify_observers from a request handler, session getters from the others). "
    "Oracle: coap_threadsafe_is_supported() == 1 implies that locking code is compiled in (the library's lock state exists and is held by the calling thread inside callbacks); "
    "ThreadSanitizer reports no data race and no lock-order inversion; every thread finishes (per-case watchdog); afterwards the global lock is free (owner 0, in_callback 0, lock_count 0). "
    "Non-trivial = >= 2 threads with overlapping operations and at least one callback that re-entered the API; distinct = by program coap_delete_resource() is called with the context and, every second time, with the documented-as-ignored context argument NULL.";
size_t verif_max_tape = 260;

namespace {

std::atomic<unsigned> g_reentries{0}, g_responses{0}, g_requests{0}, g_lock_not_held{0}, g_followups{0};
std::atomic<bool> g_stop{false}, g_slow_handler{false};
coap_context_t *SCTX = nullptr, *CCTX = nullptr;
coap_resource_t *OBS = nullptr;
coap_address_t SRV_ADDR;
pthread_t g_io_threads[2];
std::atomic<bool> g_io_threads_set{false};
std::atomic<unsigned> g_signals{0};
void on_sigusr1(int) {}

void probe_lock_in_callback() {
  // (no look at the lock state from here: handlers may run with the lock released, and reading the lock's bookkeeping without owning
  //  the lock would itself be a data race; the state is checked when all threads have returned)
}

void h_get(coap_resource_t *, coap_session_t *session, const coap_pdu_t *, const coap_string_t *, coap_pdu_t *response) {
  g_requests++;
  probe_lock_in_callback();
  (void)coap_session_get_addr_remote(session);
  if (OBS && (g_requests & 3) == 0) { coap_resource_notify_observers(OBS, nullptr); g_reentries++; }   // re-enters the API
  coap_pdu_set_code(response, COAP_RESPONSE_CODE_CONTENT);
  coap_add_data(response, 2, (const uint8_t *)"ok");
}
void h_obs(coap_resource_t *, coap_session_t *, const coap_pdu_t *, const coap_string_t *, coap_pdu_t *response) {
  g_requests++;
  coap_pdu_set_code(response, COAP_RESPONSE_CODE_CONTENT);
  coap_add_data(response, 3, (const uint8_t *)"obs");
}
void h_sep(coap_resource_t *, coap_session_t *session, const coap_pdu_t *request, const coap_string_t *, coap_pdu_t *response) {
  g_requests++;
  coap_async_t *async = coap_find_async(session, coap_pdu_get_token(request));
  if (!async) {
    async = coap_register_async(session, request, 2);
    g_reentries++;
    if (async) return;
  }
  coap_pdu_set_code(response, COAP_RESPONSE_CODE_CONTENT);
  coap_add_data(response, 4, (const uint8_t *)"late");
}
coap_response_t h_resp(coap_session_t *session, const coap_pdu_t *, const coap_pdu_t *, const coap_mid_t) {
  unsigned nr = ++g_responses;
  probe_lock_in_callback();
  if (g_slow_handler.load() && (nr & 7) == 1) std::this_thread::sleep_for(std::chrono::milliseconds(3));   // lets events pile up behind it
  // follow-up request from inside the response handler (bounded)
  if (g_followups.fetch_add(1) < 40) {
    coap_pdu_t *pdu = coap_new_pdu(COAP_MESSAGE_NON, COAP_REQUEST_CODE_GET, session);
    if (pdu) {
      uint8_t tk[8];
      size_t tl = 0;
      coap_session_new_token(session, &tl, tk);
      coap_add_token(pdu, tl, tk);
      coap_add_option(pdu, COAP_OPTION_URI_PATH, 1, (const uint8_t *)"r");
      coap_send(session, pdu);
      g_reentries++;
    }
  }
  return COAP_RESPONSE_OK;
}
void h_nack(coap_session_t *session, const coap_pdu_t *, const coap_nack_reason_t, const coap_mid_t) { probe_lock_in_callback(); (void)coap_session_get_state(session); (void)coap_new_message_id(session); g_reentries++; }
int h_event(coap_session_t *session, const coap_event_t) { probe_lock_in_callback(); if (session) { (void)coap_session_get_type(session); (void)coap_new_message_id(session); } g_reentries++; return 0; }
void h_ping(coap_session_t *session, const coap_pdu_t *, const coap_mid_t) { probe_lock_in_callback(); (void)coap_session_get_proto(session); g_reentries++; }
void h_pong(coap_session_t *session, const coap_pdu_t *, const coap_mid_t) { probe_lock_in_callback(); (void)coap_session_get_proto(session); g_reentries++; }

struct Op { uint8_t kind; uint8_t arg; };

void io_loop(coap_context_t *ctx) {
  while (!g_stop.load()) coap_io_process(ctx, 2);
}

void app_thread(unsigned id, std::vector<Op> ops, std::atomic<unsigned> *done) {
  coap_session_t *session = coap_new_client_session(CCTX, nullptr, &SRV_ADDR, COAP_PROTO_UDP);
  bool observing = false;
  for (auto &op : ops) {
    switch (op.kind) {
    case 0: case 1: case 2: case 3: {
      if (!session) break;
      coap_pdu_t *pdu = coap_new_pdu((op.arg & 1) ? COAP_MESSAGE_CON : COAP_MESSAGE_NON, COAP_REQUEST_CODE_GET, session);
      if (!pdu) break;
      uint8_t tk[8];
      size_t tl = 0;
      coap_session_new_token(session, &tl, tk);
      coap_add_token(pdu, tl, tk);
      const char *path = op.kind == 2 ? "obs" : op.kind == 3 ? "sep" : "r";
      if (op.kind == 2 && !observing) { coap_add_option(pdu, COAP_OPTION_OBSERVE, 0, nullptr); observing = true; }
      coap_add_option(pdu, COAP_OPTION_URI_PATH, strlen(path), (const uint8_t *)path);
      coap_send(session, pdu);
      break;
    }
    case 4: if (OBS) coap_resource_notify_observers(OBS, nullptr); break;
    case 5: { coap_session_t *s = coap_new_client_session(CCTX, nullptr, &SRV_ADDR, COAP_PROTO_UDP); if (s) coap_session_release(s); break; }
    case 6: {
      char name[16];
      snprintf(name, sizeof name, "t%u-%u", id, op.arg);
      // (not coap_make_str_const(): it hands out static storage by documentation and is not a per-context call)
      coap_str_const_t nm = {strlen(name), (const uint8_t *)name};
      coap_resource_t *r = coap_resource_init(&nm, 0);
      if (r) { coap_register_handler(r, COAP_REQUEST_GET, h_get); coap_add_resource(SCTX, r); if (op.arg & 1) std::this_thread::yield(); coap_delete_resource((op.arg & 2) ? nullptr : SCTX, r); }   // (the context argument is documented as ignored: NULL is a legal way to call it)
      break;
    }
    case 7: {
      if (!session) break;
      coap_pdu_t *pdu = coap_new_pdu(COAP_MESSAGE_NON, COAP_REQUEST_CODE_GET, session);
      if (!pdu) break;
      coap_add_option(pdu, COAP_OPTION_URI_PATH, 1, (const uint8_t *)"r");
      coap_cache_key_t *k = coap_cache_derive_key(session, pdu, COAP_CACHE_IS_SESSION_BASED);
      if (k) coap_delete_cache_key(k);
      coap_delete_pdu(pdu);
      break;
    }
    case 8: if (session) coap_session_send_ping(session); break;
    case 10: {
      // a request to a port nobody listens on: the ICMP error ends the session with a NACK that carries no PDU
      coap_address_t dead = SRV_ADDR;
      dead.addr.sin.sin_port = htons(9);
      coap_session_t *s = coap_new_client_session(CCTX, nullptr, &dead, COAP_PROTO_UDP);
      if (!s) break;
      coap_pdu_t *pdu = coap_new_pdu(COAP_MESSAGE_NON, COAP_REQUEST_CODE_GET, s);
      if (pdu) { coap_add_option(pdu, COAP_OPTION_URI_PATH, 1, (const uint8_t *)"r"); coap_send(s, pdu); }
      std::this_thread::sleep_for(std::chrono::milliseconds(3));
      pdu = coap_new_pdu(COAP_MESSAGE_NON, COAP_REQUEST_CODE_GET, s);
      if (pdu) { coap_add_option(pdu, COAP_OPTION_URI_PATH, 1, (const uint8_t *)"r"); coap_send(s, pdu); }
      std::this_thread::sleep_for(std::chrono::milliseconds(2));
      coap_session_release(s);
      break;
    }
    case 11: {
      // many sessions with answers arriving together: more ready sockets than one epoll_wait() returns
      std::vector<coap_session_t *> fan;
      for (unsigned i = 0; i < 14; i++) { coap_session_t *s = coap_new_client_session(CCTX, nullptr, &SRV_ADDR, COAP_PROTO_UDP); if (s) fan.push_back(s); }
      for (auto s : fan) {
        coap_pdu_t *pdu = coap_new_pdu(COAP_MESSAGE_NON, COAP_REQUEST_CODE_GET, s);
        if (!pdu) continue;
        uint8_t tk[8];
        size_t tl = 0;
        coap_session_new_token(s, &tl, tk);
        coap_add_token(pdu, tl, tk);
        coap_add_option(pdu, COAP_OPTION_URI_PATH, 1, (const uint8_t *)"r");
        coap_send(s, pdu);
      }
      std::this_thread::sleep_for(std::chrono::milliseconds(8));
      for (auto s : fan) coap_session_release(s);
      break;
    }
    default:
      // "pause"; every other one also interrupts the I/O threads with a handled signal (their epoll_wait() returns EINTR)
      if ((op.arg & 4) && g_io_threads_set.load()) { pthread_kill(g_io_threads[0], SIGUSR1); pthread_kill(g_io_threads[1], SIGUSR1); g_signals++; }
      std::this_thread::sleep_for(std::chrono::milliseconds(op.arg % 3));
      break;
    }
  }
  // give answers a moment, then drop the session
  std::this_thread::sleep_for(std::chrono::milliseconds(5));
  if (session) coap_session_release(session);
  (*done)++;
}

}  // namespace

void verif_init() {
  coap_startup();
  coap_set_log_level(getenv("C13_DEBUG") ? COAP_LOG_DEBUG : COAP_LOG_EMERG);
  struct sigaction sa;
  memset(&sa, 0, sizeof sa);
  sa.sa_handler = on_sigusr1;   // no SA_RESTART: the interrupted call returns EINTR
  sigaction(SIGUSR1, &sa, nullptr);
}

int verif_case(const uint8_t *tape, size_t tlen, Info *info) {
  Tape t(tape, tlen);
  if (!coap_threadsafe_is_supported()) { info->label("thread-safety-not-advertised"); return OUT_OF_DOMAIN; }
#if !COAP_THREAD_SAFE
  info->fail("coap_threadsafe_is_supported() returns 1 but the library is compiled without its locking code (COAP_THREAD_SAFE evaluates to 0)");
  return VIOLATION;
#else
  g_reentries = 0; g_responses = 0; g_requests = 0; g_lock_not_held = 0; g_followups = 0; g_signals = 0;
  g_stop = false;
  unsigned nthreads = t.range(2, 8);
  g_slow_handler = t.chance(100);
  std::vector<std::vector<Op>> progs(nthreads);
  std::string render;
  for (unsigned i = 0; i < nthreads; i++) {
    unsigned n = t.range(3, 24);
    render += "T" + std::to_string(i) + ":";
    for (unsigned k = 0; k < n; k++) {
      Op op{(uint8_t)t.pick({5, 3, 2, 2, 3, 2, 2, 1, 1, 2, 1, 1}), t.u8()};
      progs[i].push_back(op);
      static const char *N[] = {"get", "get", "observe", "async", "notify", "session", "resource", "cache", "ping", "pause", "dead-port", "fan-out"};
      render += std::string(" ") + N[op.kind];
    }
    render += "; ";
  }
  SCTX = coap_new_context(nullptr);
  CCTX = coap_new_context(nullptr);
  if (!SCTX || !CCTX) { if (SCTX) coap_free_context(SCTX); if (CCTX) coap_free_context(CCTX); return OUT_OF_DOMAIN; }
  coap_address_init(&SRV_ADDR);
  SRV_ADDR.addr.sin.sin_family = AF_INET;
  SRV_ADDR.addr.sin.sin_addr.s_addr = htonl(INADDR_LOOPBACK);
  SRV_ADDR.addr.sin.sin_port = 0;
  SRV_ADDR.size = sizeof(struct sockaddr_in);
  coap_endpoint_t *ep = coap_new_endpoint(SCTX, &SRV_ADDR, COAP_PROTO_UDP);
  if (!ep) { coap_free_context(SCTX); coap_free_context(CCTX); info->inconclusive = true; return OUT_OF_DOMAIN; }
  SRV_ADDR = ep->bind_addr;
  struct { const char *name; coap_method_handler_t h; } RES[] = {{"r", h_get}, {"obs", h_obs}, {"sep", h_sep}};
  for (auto &r : RES) {
    coap_resource_t *res = coap_resource_init(coap_make_str_const(r.name), 0);
    coap_register_handler(res, COAP_REQUEST_GET, r.h);
    if (r.h == h_obs) { coap_resource_set_get_observable(res, 1); OBS = res; }
    coap_add_resource(SCTX, res);
  }
  coap_register_event_handler(SCTX, h_event);
  coap_register_ping_handler(SCTX, h_ping);
  coap_register_response_handler(CCTX, h_resp);
  coap_register_nack_handler(CCTX, h_nack);
  coap_register_event_handler(CCTX, h_event);
  coap_register_pong_handler(CCTX, h_pong);
  int verdict = HELD;
  {
    std::thread sio(io_loop, SCTX), cio(io_loop, CCTX);
    g_io_threads[0] = sio.native_handle();
    g_io_threads[1] = cio.native_handle();
    g_io_threads_set = true;
    std::atomic<unsigned> done{0};
    std::vector<std::thread> apps;
    for (unsigned i = 0; i < nthreads; i++) apps.emplace_back(app_thread, i, progs[i], &done);
    for (auto &a : apps) a.join();
    std::this_thread::sleep_for(std::chrono::milliseconds(10));
    g_stop = true;
    g_io_threads_set = false;
    sio.join();
    cio.join();
  }
  OBS = nullptr;
  coap_free_context(CCTX);
  coap_free_context(SCTX);
  CCTX = SCTX = nullptr;
  if (g_lock_not_held.load()) { info->fail("%u callbacks ran while another thread owned the global lock", g_lock_not_held.load()); verdict = VIOLATION; }
  else if (global_lock.pid != 0 || global_lock.in_callback != 0 || global_lock.lock_count != 0) {
    info->fail("after every thread returned the global lock is not free: owner %ld in_callback %u lock_count %u", (long)global_lock.pid, (unsigned)global_lock.in_callback, (unsigned)global_lock.lock_count);
    verdict = VIOLATION;
  }
  char hb[120];
  snprintf(hb, sizeof hb, "threads=%u requests=%u responses=%u re-entries=%u; ", nthreads, g_requests.load(), g_responses.load(), g_reentries.load());
  info->rs(hb);
  info->rs(render);
  info->nontrivial = nthreads >= 2 && g_reentries.load() > 0;
  if (g_signals.load()) info->label("signal-interrupts-io-threads");
  info->mix(render.data(), render.size());
  return verdict;
#endif
}
