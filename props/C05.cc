// C05 — stream transports deliver the same messages however the byte stream is cut.
#include "../sim/helpers.h"
#include <openssl/evp.h>
#include <openssl/sha.h>
using namespace verif;
using namespace sim;

const char *verif_property_id = "C05";
const char *verif_rule =
    "tape -> scenario (libcoap TCP or WebSocket endpoint in server or client role fed by a scripted stream peer): [WS: opening handshake with canonical or "
    "varied header order/case] + CSM + 1..8 messages from the reference encoder (all TCP length forms 0/8/16/32 bit, tokens 0..8 and extended 13/269-class, "
    "empty and non-empty payloads, signalling Ping; WS frames with 7/16/64-bit lengths, masked towards a server, runs of tiny frames towards a client), optional WS close; "
    "then the same stream is delivered under several cut plans (whole, one byte per read, generated chunk sizes incl. 14 and >= 1472, cuts aimed inside the length / "
    "extended-length / extended-token / WS extended-length / mask fields and inside handshake lines; between reads the application's stack is scribbled). "
    "Oracle: the list of messages reaching the handlers (code, token, options, payload) and the decoded replies are identical for every plan and equal the generated list. "
    "Negative scenarios (declared TCP length above the maximum, WS frame larger than the buffer, handshake line of 150..400 bytes): the session is closed under every plan and nothing "
    "after the offending element is delivered. Enumerated tier: all 2- and 3-cut placements of short streams. "
    "Non-trivial = a cut falls strictly inside a multi-byte header field or a handshake line; distinct = by scenario + plan";
size_t verif_max_tape = 260;

namespace {

struct Scenario {
  bool ws = false;
  bool client_role = false;           // libcoap is the client (peer listens)
  std::vector<uint8_t> handshake;     // WS: bytes of the HTTP part sent by the peer (request when libcoap is server)
  std::vector<uint8_t> stream;        // bytes sent by the peer after the handshake (CSM + messages)
  std::vector<ref::Msg> expected;     // messages that must reach the handlers, in order (without signalling)
  std::vector<size_t> field_cuts;     // offsets (in handshake+stream) that lie strictly inside a multi-byte header field / handshake line
  int negative = 0;                   // 0 none, 1 oversize TCP length, 2 oversize WS frame, 3 long handshake line
  size_t neg_after = 0;               // number of expected messages before the offending element
};

struct Result {
  std::vector<std::string> delivered;
  std::vector<std::string> replies;
  bool closed = false;
  bool capped = false;
};

struct Ctx {
  World *w;
  std::vector<std::string> *log;
} *G = nullptr;

std::string render_msg(const ref::Msg &m) {
  std::string s = lc::render(m);
  // type/mid are meaningless on reliable transports
  size_t p = s.find("code=");
  return p == std::string::npos ? s : s.substr(p);
}

void req_handler(coap_resource_t *, coap_session_t *, const coap_pdu_t *request, const coap_string_t *, coap_pdu_t *response) {
  ref::Msg m = lc::dump(request);
  G->log->push_back(render_msg(m));
  coap_pdu_set_code(response, COAP_RESPONSE_CODE_CHANGED);
}
coap_response_t resp_handler(coap_session_t *, const coap_pdu_t *, const coap_pdu_t *rcvd, const coap_mid_t) {
  ref::Msg m = lc::dump(rcvd);
  G->log->push_back(render_msg(m));
  return COAP_RESPONSE_OK;
}

std::string b64(const uint8_t *d, size_t n) {
  std::string out(4 * ((n + 2) / 3) + 1, '\0');
  int l = EVP_EncodeBlock((unsigned char *)&out[0], d, (int)n);
  out.resize(l);
  return out;
}
std::string ws_accept(const std::string &key_b64) {
  std::string in = key_b64 + "258EAFA5-E914-47DA-95CA-C5AB0DC85B11";
  uint8_t dig[20];
  SHA1((const unsigned char *)in.data(), in.size(), dig);
  return b64(dig, 20);
}

void ws_frame(std::vector<uint8_t> &out, const std::vector<uint8_t> &payload, bool masked, int lenform, uint8_t opcode, const uint8_t mask[4], std::vector<size_t> *field_cuts, size_t base) {
  size_t start = out.size();
  out.push_back((uint8_t)(0x80 | opcode));
  size_t n = payload.size();
  int form = lenform;
  if (n > 125 && form == 0) form = 1;
  if (n > 65535) form = 2;
  if (form == 0) out.push_back((uint8_t)((masked ? 0x80 : 0) | n));
  else if (form == 1) { out.push_back((uint8_t)((masked ? 0x80 : 0) | 126)); out.push_back((uint8_t)(n >> 8)); out.push_back((uint8_t)n); }
  else { out.push_back((uint8_t)((masked ? 0x80 : 0) | 127)); for (int i = 7; i >= 0; i--) out.push_back((uint8_t)((uint64_t)n >> (8 * i))); }
  if (masked) for (int i = 0; i < 4; i++) out.push_back(mask[i]);
  size_t hdr_end = out.size();
  for (size_t i = 0; i < n; i++) out.push_back(masked ? (uint8_t)(payload[i] ^ mask[i & 3]) : payload[i]);
  if (field_cuts) for (size_t c = start + 1; c < hdr_end; c++) field_cuts->push_back(base + c);
}

// field boundaries inside a TCP-framed message: every offset strictly inside the header (length ext, code, token ext)
void tcp_field_cuts(const std::vector<uint8_t> &msg, size_t base, std::vector<size_t> *cuts) {
  int ln = msg[0] >> 4, tkl = msg[0] & 15;
  size_t hdr = 1 + (ln == 13 ? 1 : ln == 14 ? 2 : ln == 15 ? 4 : 0) + 1 + (tkl == 13 ? 1 : tkl == 14 ? 2 : 0);
  for (size_t c = 1; c < hdr && c < msg.size(); c++) cuts->push_back(base + c);
}

ref::Msg gen_message(Tape &t, bool client_role, unsigned idx, bool allow_ext_token, bool allow_huge, bool ws_limit) {
  ref::Msg m;
  if (client_role) m.code = t.pick({3, 1}) ? 0x45 : 0x44;   // responses towards a libcoap client
  else m.code = t.pick({3, 1}) ? 0x03 : 0x02;               // PUT / POST towards a libcoap server
  size_t tl;
  switch (t.pick({5, 3, 1, 1})) {
  case 0: tl = t.range(1, 8); break;
  case 1: tl = 0; break;
  case 2: tl = allow_ext_token ? 13 + t.range(0, 3) : 8; break;
  default: tl = allow_ext_token ? 269 + t.range(0, 2) : 4; break;
  }
  m.token = t.blob(tl);
  if (tl) m.token[0] = (uint8_t)idx;
  if (!client_role) m.opts.push_back(ref::Opt{11, {'r'}});
  if (t.chance(64)) m.opts.push_back(ref::Opt{12, {42}});
  if (t.chance(32)) m.opts.push_back(ref::Opt{2048, t.blob(t.range(0, 20))});
  size_t pl;
  switch (t.pick({4, 4, 3, 2, 1})) {
  case 0: pl = 0; break;
  case 1: pl = t.range(1, 10); break;
  case 2: pl = t.range(8, 300); break;          // around the 13 / 269 body totals
  case 3: pl = t.range(260, 1400); break;
  default: pl = allow_huge ? 65790 + t.range(0, 40) : t.range(1400, 3000); break;  // 16/32-bit length boundary
  }
  // libcoap's WebSocket layer takes one frame per receive buffer (COAP_RXBUFFER_SIZE 1472): larger frames are the negative case
  if (ws_limit && tl + pl > 1300) pl = 1300 - tl;
  {
  }
  m.payload = t.blob(pl);
  return m;
}

Scenario gen_scenario(Tape &t, Info *info) {
  Scenario sc;
  sc.ws = t.pick({3, 2}) == 1;
  sc.client_role = t.pick({3, 2}) == 1;
  { unsigned nv = (unsigned)t.pick({10, 1, 1, 1}); sc.negative = (int)nv; }
  if (sc.negative == 1 && sc.ws) sc.negative = 2;
  if (sc.negative == 2 && !sc.ws) sc.negative = 1;
  if (sc.negative == 3 && (!sc.ws || sc.client_role)) sc.negative = sc.ws ? 2 : 1;
  bool ext_tok = t.chance(64);
  unsigned nmsg = t.range(1, 8);
  bool tiny_run = sc.ws && sc.client_role && t.chance(96);   // runs of token-less 2-byte frames (several fit into one 14-byte header read)
  uint8_t mask[4] = {0x37, 0xfa, 0x21, 0x3d};
  if (sc.ws && !sc.client_role) {
    // HTTP upgrade request; header order / case varied, optional long line
    std::string key = b64((const uint8_t *)"0123456789abcdef", 16);
    std::vector<std::string> lines = {"Host: server.example", "Upgrade: websocket", "Connection: Upgrade", "Sec-WebSocket-Key: " + key, "Sec-WebSocket-Protocol: coap", "Sec-WebSocket-Version: 13"};
    if (t.chance(64)) std::swap(lines[0], lines[t.range(1, 5)]);
    if (t.chance(64)) for (auto &l : lines) if (l == "Upgrade: websocket") l = "upgrade: WebSocket";
    if (t.chance(48)) lines.insert(lines.begin() + t.range(0, 5), "X-Extra: " + std::string(t.range(0, 100), 'x'));
    if (sc.negative == 3) lines.insert(lines.begin() + t.range(0, 5), "X-Long: " + std::string(t.range(150, 400), 'y'));
    std::string req = "GET /.well-known/coap HTTP/1.1\r\n";
    for (auto &l : lines) req += l + "\r\n";
    req += "\r\n";
    sc.handshake.assign(req.begin(), req.end());
    for (size_t c = 1; c < sc.handshake.size(); c++) if (sc.handshake[c - 1] != '\n') sc.field_cuts.push_back(c);
  }
  // CSM (optionally with Extended-Token-Length so that extended tokens are legal)
  auto add_msg = [&](const ref::Msg &m, int wsform) {
    if (sc.ws) {
      std::vector<uint8_t> body = ref::encode(m, ref::F_WS);
      ws_frame(sc.stream, body, !sc.client_role, wsform, 2, mask, &sc.field_cuts, sc.handshake.size());
    } else {
      std::vector<uint8_t> b = ref::encode(m, ref::F_TCP);
      tcp_field_cuts(b, sc.handshake.size() + sc.stream.size(), &sc.field_cuts);
      sc.stream.insert(sc.stream.end(), b.begin(), b.end());
    }
  };
  {
    ref::Msg csm;
    csm.code = 0xE1;
    if (ext_tok) csm.opts.push_back(ref::Opt{6, {0x04, 0x00}});
    add_msg(csm, 0);
  }
  for (unsigned i = 0; i < nmsg; i++) {
    if (sc.negative && i == nmsg / 2) {
      sc.neg_after = sc.expected.size();
      if (sc.negative == 1) {
        // TCP header declaring a body far above COAP_DEFAULT_MAX_PDU_RX_SIZE
        // (which one: last tape byte, so that earlier tapes keep theirs) 2^31, the largest value of the field, the values around the point where
        // 65805 + extended length no longer fits 32 bits, and lengths not far above the maximum
        static const uint32_t EXT[] = {0x7fffffffu, 0xffffffffu, 0xfffefef3u, 0xfffefef2u, 0xffff0000u, (uint32_t)COAP_DEFAULT_MAX_PDU_RX_SIZE + 70000u, 0x01000000u, 0x80000000u};
        uint32_t ext = EXT[t.n >= 48 ? t.p[t.n - 1] % 8 : 0];
        std::vector<uint8_t> h = {0xF0, (uint8_t)(ext >> 24), (uint8_t)(ext >> 16), (uint8_t)(ext >> 8), (uint8_t)ext, 0x03};
        for (int k = 0; k < 40; k++) h.push_back((uint8_t)k);
        sc.stream.insert(sc.stream.end(), h.begin(), h.end());
      } else if (sc.negative == 2) {
        // WS frame whose declared length exceeds the receive buffer
        std::vector<uint8_t> pay(20, 0x55);
        size_t at = sc.stream.size();
        ws_frame(sc.stream, pay, !sc.client_role, 2, 2, mask, nullptr, 0);
        // rewrite the 64-bit length to 1 MiB
        sc.stream[at + 2 + 5] = 0x10;
      }
      // (negative == 3 lives in the handshake)
    }
    ref::Msg m;
    int wsform = (int)t.pick({4, 2, 1});
    if (tiny_run) { m = ref::Msg(); m.code = 0x45; }
    else if (t.chance(20)) { m = ref::Msg(); m.code = 0xE2; m.token = {(uint8_t)i}; }   // Ping (answered by Pong, not handed to a handler)
    else m = gen_message(t, sc.client_role, i, ext_tok, t.chance(8), sc.ws);
    add_msg(m, wsform);
    if (!ref::is_signaling(m.code)) sc.expected.push_back(m);
  }
  if (sc.ws && t.chance(48)) { std::vector<uint8_t> reason = {0x03, 0xe8}; ws_frame(sc.stream, reason, !sc.client_role, 0, 8, mask, nullptr, 0); info->label("ws-close-at-end"); }
  return sc;
}

void scribble_stack() {
  // between two coap_io_process() calls an application is free to use its stack
  volatile uint8_t junk[10000];
  for (size_t i = 0; i < sizeof junk; i += 1) junk[i] = (uint8_t)(0xA5 ^ i);
  (void)junk[100];
}

Result run_once(const Scenario &sc, const std::vector<size_t> &chunks, uint32_t gap) {
  Result res;
  World w;
  w.record_payloads = false;
  w.idle_hook = scribble_stack;
  std::vector<std::string> log;
  Ctx cx{&w, &log};
  G = &cx;
  seed_prng(7);
  coap_context_t *ctx = coap_new_context(nullptr);
  coap_context_set_max_token_size(ctx, 1024);
  coap_context_set_csm_max_message_size(ctx, 200000);
  w.add_context(ctx);
  Addr srv = Addr::v4(10, 0, 0, 1, 5683), cli = Addr::v4(10, 0, 2, 9, 40001);
  coap_proto_t proto = sc.ws ? COAP_PROTO_WS : COAP_PROTO_TCP;
  StreamPeer *sp;
  coap_session_t *session = nullptr;
  std::vector<uint8_t> all = sc.handshake;
  all.insert(all.end(), sc.stream.begin(), sc.stream.end());
  if (!sc.client_role) {
    coap_address_t la;
    srv.to_coap(&la);
    coap_new_endpoint(ctx, &la, proto);
    coap_resource_t *r = coap_resource_init(coap_make_str_const("r"), 0);
    for (int m = 1; m <= 7; m++) coap_register_handler(r, (coap_request_t)m, req_handler);
    coap_add_resource(ctx, r);
    sp = w.add_stream_peer(cli, false);
    w.stream_connect(sp, srv);
    w.run(w.now + 10, 200);
    w.stream_send(sp, all, chunks, gap);
  } else {
    coap_register_response_handler(ctx, resp_handler);
    sp = w.add_stream_peer(srv, true);
    coap_address_t dst;
    srv.to_coap(&dst);
    session = coap_new_client_session(ctx, nullptr, &dst, proto);
    if (sc.ws && session) coap_ws_set_host_request(session, coap_make_str_const("server.example"));
    if (sc.ws) {
      // answer the client's upgrade request, then send the stream
      bool *answered = new bool(false);
      sp->on_rx = [&, answered](World &ww, StreamPeer &p) {
        if (*answered) return;
        std::string rx(p.rx.begin(), p.rx.end());
        size_t e = rx.find("\r\n\r\n");
        if (e == std::string::npos) return;
        size_t k = rx.find("Sec-WebSocket-Key: ");
        if (k == std::string::npos) return;
        std::string key = rx.substr(k + 19, rx.find("\r\n", k) - (k + 19));
        std::string resp = "HTTP/1.1 101 Switching Protocols\r\nUpgrade: websocket\r\nConnection: Upgrade\r\nSec-WebSocket-Accept: " + ws_accept(key) + "\r\nSec-WebSocket-Protocol: coap\r\n\r\n";
        *answered = true;
        std::vector<uint8_t> bytes(resp.begin(), resp.end());
        bytes.insert(bytes.end(), all.begin(), all.end());
        // the plan's cut positions refer to the scenario stream: the 101 response goes first in one piece
        std::vector<size_t> ch = {resp.size()};
        ch.insert(ch.end(), chunks.begin(), chunks.end());
        ww.stream_send(&p, bytes, ch, gap);
      };
      w.run(w.now + 5000, 20000);
      delete answered;
      goto done;
    }
    w.run(w.now + 10, 200);
    w.stream_send(sp, all, chunks, gap);
  }
  {
    // run with stack scribbling between deliveries
    unsigned guard = 0;
    while (!w.queue.empty() && guard++ < 200000) {
      uint64_t until = w.queue.begin()->at;
      w.run(until, 400000);
      scribble_stack();
      if (w.hit_cap) break;
    }
    w.run(w.now + 2000, 400000);
  }
done:
  res.capped = w.hit_cap;
  res.delivered = log;
  res.closed = sp->peer_closed;
  // decode what libcoap wrote back
  {
    std::vector<uint8_t> rx = sp->rx;
    if (sc.ws) {
      // strip the HTTP part, then de-frame
      std::string s(rx.begin(), rx.end());
      size_t e = s.find("\r\n\r\n");
      size_t p = e == std::string::npos ? rx.size() : e + 4;
      while (p + 2 <= rx.size()) {
        uint8_t b0 = rx[p], b1 = rx[p + 1];
        size_t n = b1 & 0x7f, h = 2;
        if (n == 126) { if (p + 4 > rx.size()) break; n = (size_t)rx[p + 2] << 8 | rx[p + 3]; h = 4; }
        else if (n == 127) { if (p + 10 > rx.size()) break; n = 0; for (int i = 0; i < 8; i++) n = n << 8 | rx[p + 2 + i]; h = 10; }
        bool masked = b1 & 0x80;
        uint8_t mk[4] = {0, 0, 0, 0};
        if (masked) { if (p + h + 4 > rx.size()) break; memcpy(mk, &rx[p + h], 4); h += 4; }
        if (p + h + n > rx.size()) break;
        std::vector<uint8_t> body(rx.begin() + p + h, rx.begin() + p + h + n);
        if (masked) for (size_t i = 0; i < n; i++) body[i] ^= mk[i & 3];
        if ((b0 & 15) == 2) {
          ref::DecodeResult d = ref::decode(body.data(), body.size(), ref::F_WS, false);
          res.replies.push_back(d.ok ? render_msg(d.msg) : std::string("<malformed>"));
        } else if ((b0 & 15) == 8) res.replies.push_back("<ws-close>");
        p += h + n;
      }
    } else {
      size_t p = 0;
      while (p < rx.size()) {
        const uint8_t *d = rx.data() + p;
        size_t left = rx.size() - p;
        int ln = d[0] >> 4, tkl = d[0] & 15;
        size_t hdr = ln < 13 ? 1 : ln == 13 ? 2 : ln == 14 ? 3 : 5;
        if (left < hdr + 1) break;
        size_t declared = ln < 13 ? (size_t)ln : ln == 13 ? 13u + d[1] : ln == 14 ? 269u + (d[1] << 8 | d[2]) : 65805u + ((uint32_t)d[1] << 24 | d[2] << 16 | d[3] << 8 | d[4]);
        size_t tl = tkl <= 12 ? (size_t)tkl : 0, ext = 0;
        if (tkl == 13) { if (left < hdr + 2) break; tl = 13u + d[hdr + 1]; ext = 1; }
        else if (tkl == 14) { if (left < hdr + 3) break; tl = 269u + (d[hdr + 1] << 8 | d[hdr + 2]); ext = 2; }
        size_t total = hdr + 1 + ext + tl + declared;
        if (left < total) break;
        ref::DecodeResult r = ref::decode(d, total, ref::F_TCP, false);
        res.replies.push_back(r.ok ? render_msg(r.msg) : std::string("<malformed>"));
        p += total;
      }
    }
  }
  w.remove_context(ctx);
  coap_free_context(ctx);
  (void)session;
  G = nullptr;
  return res;
}

std::vector<size_t> plan_from_cuts(const std::vector<size_t> &cuts, size_t total) {
  std::vector<size_t> c = cuts;
  std::sort(c.begin(), c.end());
  c.erase(std::unique(c.begin(), c.end()), c.end());
  std::vector<size_t> chunks;
  size_t prev = 0;
  for (size_t x : c) { if (x > prev && x < total) { chunks.push_back(x - prev); prev = x; } }
  chunks.push_back(total - prev);
  return chunks;
}

int compare(const Scenario &sc, const Result &base, const Result &r, const char *plan, Info *info) {
  if (r.capped || base.capped) { info->inconclusive = true; return HELD; }
  if (r.delivered != base.delivered) {
    size_t i = 0;
    while (i < r.delivered.size() && i < base.delivered.size() && r.delivered[i] == base.delivered[i]) i++;
    info->fail("plan '%s': %zu message(s) reached the handlers, %zu with the stream delivered in one piece; first difference at #%zu: [%s] vs [%s]", plan, r.delivered.size(), base.delivered.size(), i,
               i < r.delivered.size() ? r.delivered[i].c_str() : "-", i < base.delivered.size() ? base.delivered[i].c_str() : "-");
    return VIOLATION;
  }
  if (r.replies != base.replies) { info->fail("plan '%s': replies differ from the single-read run (%zu vs %zu messages written back)", plan, r.replies.size(), base.replies.size()); return VIOLATION; }
  if (sc.negative && !r.closed) { info->fail("plan '%s': session not closed after an over-long element", plan); return VIOLATION; }
  return HELD;
}

}  // namespace

void verif_init() {
  coap_startup();
  coap_set_log_level(getenv("C05_DEBUG") ? COAP_LOG_DEBUG : COAP_LOG_EMERG);
}

// enumeration tier: (scenario seed s, cut pair/triple index) -> tape [0xFE, s, i0, i1, i2]
size_t verif_enum(uint64_t i, std::vector<uint8_t> *tape) {
  const uint64_t per = 2000;  // placements tried per scenario seed (bounded by the stream length inside the case)
  if (tape) {
    tape->clear();
    tape->push_back(0xFE);
    tape->push_back((uint8_t)(i / per));
    uint64_t k = i % per;
    tape->push_back((uint8_t)(k & 0xff));
    tape->push_back((uint8_t)(k >> 8));
  }
  return 64 * per;
}

int verif_case(const uint8_t *tape, size_t tlen, Info *info) {
  Tape t(tape, tlen);
  bool enumerated = tlen >= 4 && tape[0] == 0xFE;
  std::vector<uint8_t> seedtape;
  uint32_t enum_k = 0;
  if (enumerated) {
    t.u8();
    uint8_t s = t.u8();
    enum_k = t.u16();
    // a deterministic short scenario from the seed
    for (int i = 0; i < 60; i++) seedtape.push_back((uint8_t)((s * 37 + i * 101) ^ (i << 1)));
    seedtape[0] = (uint8_t)(s & 3);  // ws/tcp mix
  }
  Tape ts(seedtape.data(), seedtape.size());
  Scenario sc = gen_scenario(enumerated ? ts : t, info);
  size_t total = sc.handshake.size() + sc.stream.size();
  if (total == 0) return OUT_OF_DOMAIN;
  if (enumerated && total > 4000) return OUT_OF_DOMAIN;
  Result base = run_once(sc, {total}, 0);
  info->label(sc.ws ? (sc.client_role ? "ws-client" : "ws-server") : (sc.client_role ? "tcp-client" : "tcp-server"));
  if (sc.negative) info->label(sc.negative == 1 ? "negative:tcp-length" : sc.negative == 2 ? "negative:ws-frame" : "negative:handshake-line");
  {
    char b[160];
    snprintf(b, sizeof b, "%s %s neg=%d stream=%zuB msgs=%zu;", sc.ws ? "WS" : "TCP", sc.client_role ? "client" : "server", sc.negative, total, sc.expected.size());
    info->rs(b);
  }
  info->mixu(sc.ws); info->mixu(sc.client_role);
  info->mix(sc.handshake.data(), sc.handshake.size());
  info->mix(sc.stream.data(), sc.stream.size() > 4096 ? 4096 : sc.stream.size());
  if (base.capped) { info->inconclusive = true; return HELD; }
  // ---- the single-read run must deliver exactly the generated list ----
  std::vector<std::string> want;
  for (size_t i = 0; i < sc.expected.size(); i++) {
    if (sc.negative && sc.negative != 3 && i >= sc.neg_after) break;
    if (sc.negative == 3) break;
    want.push_back(render_msg(sc.expected[i]));
  }
  if (base.delivered != want) {
    size_t i = 0;
    while (i < want.size() && i < base.delivered.size() && want[i] == base.delivered[i]) i++;
    // known: a WebSocket CoAP message of exactly 2 bytes (no token, options or payload) is dropped by the frame reader
    bool tiny = false;
    if (sc.ws && i < want.size()) { const ref::Msg &m = sc.expected[i]; if (m.token.empty() && m.opts.empty() && m.payload.empty()) tiny = true; }
    if (tiny && exclude_known(info, "ws-two-byte-message-dropped")) return HELD;
    info->fail("stream delivered in one piece: %zu message(s) reached the handlers, %zu were sent; first difference at #%zu: got [%s] want [%s]", base.delivered.size(), want.size(), i,
               i < base.delivered.size() ? base.delivered[i].c_str() : "-", i < want.size() ? want[i].c_str() : "-");
    return VIOLATION;
  }
  if (sc.negative && !base.closed) { info->fail("session not closed after an over-long element (single read)"); return VIOLATION; }
  // ---- other plans ----
  uint64_t plans = 0;
  auto try_plan = [&](const std::vector<size_t> &chunks, uint32_t gap, const char *name) -> int {
    plans++;
    Result r = run_once(sc, chunks, gap);
    return compare(sc, base, r, name, info);
  };
  int v = HELD;
  if (enumerated) {
    // k-th placement of two or three cuts
    size_t n = total - 1;  // cut positions 1..total-1
    uint64_t pairs = (uint64_t)n * (n - 1) / 2;
    std::vector<size_t> cuts;
    uint64_t k = enum_k;
    if (n < 2) return OUT_OF_DOMAIN;
    // spread the index over pairs first, then triples derived from the pair + a third cut
    uint64_t idx = k % pairs;
    size_t a = 1;
    while (idx >= n - a) { idx -= n - a; a++; }
    size_t b = a + 1 + (size_t)idx;
    cuts = {a, b};
    if (k >= pairs || (k & 1)) { size_t c = 1 + (size_t)((k * 2654435761u) % n); cuts.push_back(c); }
    for (size_t c : cuts) if (std::find(sc.field_cuts.begin(), sc.field_cuts.end(), c) != sc.field_cuts.end()) info->nontrivial = true;
    v = try_plan(plan_from_cuts(cuts, total), 0, "enumerated cuts");
    info->count("cut_plans", plans);
    for (size_t c : cuts) info->mixu(c);
    return v;
  }
  // 1 byte per read (bounded streams only: cost is linear in the number of deliveries)
  if (total <= 700) { v = try_plan(std::vector<size_t>(total, 1), t.flag() ? 1 : 0, "one byte per read"); if (v != HELD) { info->count("cut_plans", plans); return v; } info->nontrivial = true; }
  unsigned extra = (unsigned)t.pick({1, 2, 2, 1});
  for (unsigned e = 0; e <= extra && v == HELD; e++) {
    std::vector<size_t> chunks;
    char name[64];
    switch (t.pick({3, 3, 1, 1})) {
    case 0: {  // generated chunk sizes
      size_t off = 0;
      while (off < total) { size_t c = t.pick({4, 1, 1}) == 0 ? t.range(1, 40) : t.pick({1, 1}) ? 14 : t.range(40, 600); chunks.push_back(c); off += c; }
      snprintf(name, sizeof name, "random chunks");
      break;
    }
    case 1: {  // cuts aimed inside header fields
      std::vector<size_t> cuts;
      unsigned nc = t.range(1, 6);
      for (unsigned i = 0; i < nc && !sc.field_cuts.empty(); i++) cuts.push_back(sc.field_cuts[t.range(0, (uint32_t)sc.field_cuts.size() - 1)]);
      if (!cuts.empty()) info->nontrivial = true;
      chunks = plan_from_cuts(cuts, total);
      snprintf(name, sizeof name, "cuts inside header fields");
      break;
    }
    case 2: {  // reads that fill the receive buffer exactly
      size_t off = 0;
      while (off < total) { chunks.push_back(1472); off += 1472; }
      snprintf(name, sizeof name, "1472-byte chunks");
      break;
    }
    default: {  // two pieces
      size_t c = t.range(1, (uint32_t)total > 1 ? (uint32_t)total - 1 : 1);
      chunks = plan_from_cuts({c}, total);
      if (std::find(sc.field_cuts.begin(), sc.field_cuts.end(), c) != sc.field_cuts.end()) info->nontrivial = true;
      snprintf(name, sizeof name, "single cut at %zu", c);
      break;
    }
    }
    for (size_t c : chunks) info->mixu(c);
    v = try_plan(chunks, t.chance(64) ? 1 : 0, name);
  }
  info->count("cut_plans", plans);
  return v;
}
