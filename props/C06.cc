// C06 — Confirmable messages are retransmitted on schedule and end in one outcome.
// libcoap client context on the simulated network against scripted peers; oracle from the wire trace.
#include "../sim/helpers.h"
using namespace verif;
using namespace sim;

const char *verif_property_id = "C06";
const char *verif_rule =
    "tape -> 1..2 UDP client sessions (own scripted peer each) with ack_timeout in [1.000,8.000], ack_random_factor in [1.000,3.000], "
    "max_retransmit 1..6 (the API ignores 0), libcoap PRNG seeded from the tape; 1..4 CON messages (GET requests or empty CON pings) submitted at generated times; "
    "per wire datagram a fate (deliver / drop / duplicate / delay up to 2x timeout); per copy received the peer answers ACK / RST / nothing / "
    "ACK on the other session (same mid), each with its own delay; in about a third of the longer tapes the context also has a listening endpoint whose server sessions (strangers sending NON requests) idle out after 1..20 s while the messages are retransmitted; in about a quarter of the cases each (read from the end of the tape) the application "
    "declares one session disconnected at a generated time (its messages end with one NACK(NOT_DELIVERABLE) each) and/or one copy of a request is answered by "
    "a separate NON response instead of an ACK (libcoap removes the request by token; only its schedule up to there is judged) - the messages of the other "
    "session keep their schedule. The world sleeps exactly as long as coap_io_prepare_epoll() reports. "
    "Oracle per accepted CON: copies byte-identical; T=t1-t0 within [ACK_TIMEOUT, ACK_TIMEOUT*ACK_RANDOM_FACTOR] up to the Q.6 fixed point "
    "representation ((2*AT+ARF+2)/128 s); gaps exactly T*2^k; every retransmission due strictly before the ACK/RST delivery happened and none after; "
    "exactly one outcome (ACK: no NACK call with the PDU; RST: one NACK(RST); none: one NACK(TOO_MANY_RETRIES) after max_retransmit retransmissions); "
    "every reported wait <= time to the earliest pending model deadline. Enumerated tier: every drop subset of the first 10 datagrams. "
    "Non-trivial = at least one retransmission and at least one lost or delayed datagram; distinct = by full wire trace";
size_t verif_max_tape = 220;

namespace {

const uint64_t INF = UINT64_MAX;

struct MsgRec {
  int sess = 0;
  uint16_t mid = 0;
  bool ping = false;
  uint64_t submit_t = 0;
  std::vector<uint64_t> tx;
  std::vector<uint8_t> bytes;
  bool bytes_differ = false;
  uint64_t ack_t = INF;
  int ack_type = 0;  // 2 ACK, 3 RST
  int nacks_with_pdu = 0, nacks_null = 0;
  int nack_reason = -1;
  uint64_t nack_t = 0;
  std::vector<uint8_t> token;
  int order = -1;            // index of the submission
  uint64_t cancel_t = INF;   // the application declared the session of the message disconnected
  uint64_t resp_t = INF;     // a (separate, non-piggybacked) response with the token of the request was delivered
  // position in the trace of the moment libcoap took the ACK/RST resp. the response out of its socket, and of the disconnect: what
  // happens within one millisecond is ordered by these, not by the clock
  size_t ack_ev = SIZE_MAX, resp_ev = SIZE_MAX, cancel_ev = SIZE_MAX;
};

struct SessRec {
  coap_session_t *s = nullptr;
  Peer *peer = nullptr;
  uint32_t at_ms = 2000, arf_ms = 1500;
  unsigned max_rt = 4;
  unsigned rx_count = 0;
};

struct Case {
  World *w = nullptr;
  std::vector<SessRec> sess;
  std::vector<MsgRec> msgs;
  int unexpected_response = 0;
} *G = nullptr;

int sess_index(coap_session_t *s) {
  for (size_t i = 0; i < G->sess.size(); i++) if (G->sess[i].s == s) return (int)i;
  return -1;
}

void nack_handler(coap_session_t *session, const coap_pdu_t *sent, const coap_nack_reason_t reason, const coap_mid_t mid) {
  int si = sess_index(session);
  char b[96];
  snprintf(b, sizeof b, "NACK sess=%d mid=%d reason=%d pdu=%s", si, mid, (int)reason, sent ? "yes" : "null");
  G->w->callback(b);
  for (auto &m : G->msgs) {
    if (m.sess == si && m.mid == (uint16_t)mid) {
      if (sent) { m.nacks_with_pdu++; m.nack_reason = (int)reason; m.nack_t = G->w->now; }
      else m.nacks_null++;
    }
  }
}

coap_response_t resp_handler(coap_session_t *, const coap_pdu_t *, const coap_pdu_t *, const coap_mid_t) {
  G->unexpected_response++;
  return COAP_RESPONSE_OK;
}

struct ReplyPlan { int action; uint32_t delay; };  // 0 ACK 1 nothing 2 RST 3 ACK via the other session

}  // namespace

void verif_init() {
  coap_startup();
  coap_set_log_level(COAP_LOG_EMERG);
}

// enumeration tier: index -> tape (mode byte 0xFF, timer setting, 10-bit drop mask)
size_t verif_enum(uint64_t i, std::vector<uint8_t> *tape) {
  const size_t settings = 6;
  if (tape) {
    tape->clear();
    tape->push_back(0xFF);
    tape->push_back((uint8_t)(i / 1024));
    tape->push_back((uint8_t)(i & 0xff));
    tape->push_back((uint8_t)((i >> 8) & 3));
  }
  return settings * 1024;
}

int verif_case(const uint8_t *tape, size_t tlen, Info *info) {
  Tape t(tape, tlen);
  Case cs;
  G = &cs;
  World w;
  cs.w = &w;
  bool sweep = tlen >= 4 && tape[0] == 0xFF;
  uint32_t sweep_mask = 0;
  unsigned sweep_setting = 0;
  if (sweep) { t.u8(); sweep_setting = t.u8() % 6; sweep_mask = t.u8(); sweep_mask |= (uint32_t)(t.u8() & 3) << 8; }
  seed_prng(sweep ? 77 + sweep_setting : t.u32());
  coap_context_t *ctx = coap_new_context(nullptr);
  if (!ctx) return OUT_OF_DOMAIN;
  w.add_context(ctx);
  coap_register_nack_handler(ctx, nack_handler);
  coap_register_response_handler(ctx, resp_handler);

  unsigned nsess = sweep ? 1 : (unsigned)t.pick({3, 1}) + 1;
  // Read from the END of the tape (backwards, behind the bytes of the draws further down): a third session, and sessions whose message id counters
  // coincide (each session draws its first message id at random, so equal ids in two sessions of one send queue are legal and happen)
  std::vector<uint8_t> rev2(tape, tape + (tlen >= 48 ? tlen - 16 : 0));   // (short tapes - the saved replays among them - keep their meaning)
  std::reverse(rev2.begin(), rev2.end());
  Tape tb2(rev2.data(), rev2.size());
  bool same_mids = false;
  if (!sweep) {
    if (nsess == 2 && tb2.chance(90)) nsess = 3;
    same_mids = nsess > 1 && tb2.chance(100);
  }
  for (unsigned i = 0; i < nsess; i++) {
    SessRec sr;
    Addr pa = Addr::v4(10, 0, 1, (uint8_t)(i + 1), 5683);
    sr.peer = w.add_peer(pa);
    coap_address_t dst;
    pa.to_coap(&dst);
    sr.s = coap_new_client_session(ctx, nullptr, &dst, COAP_PROTO_UDP);
    if (!sr.s) { coap_free_context(ctx); return OUT_OF_DOMAIN; }
    if (sweep) {
      static const uint32_t AT[] = {2000, 1000, 3500, 2000, 8000, 1234}, ARF[] = {1500, 1000, 1500, 3000, 2000, 1001};
      sr.at_ms = AT[sweep_setting]; sr.arf_ms = ARF[sweep_setting]; sr.max_rt = 4;
    } else {
      sr.at_ms = t.pick({1, 2}) ? t.range(1000, 8000) : 2000;
      sr.arf_ms = t.pick({1, 2}) ? t.range(1000, 3000) : 1500;
      sr.max_rt = t.pick({1, 3}) ? t.range(1, 6) : 4;  // the API ignores 0
    }
    if (same_mids && i > 0) { sr.s->tx_mid = (uint16_t)(cs.sess[0].s->tx_mid + tb2.range(0, 2)); info->label("sessions-with-coinciding-message-ids"); }
    coap_session_set_ack_timeout(sr.s, (coap_fixed_point_t){(uint16_t)(sr.at_ms / 1000), (uint16_t)(sr.at_ms % 1000)});
    coap_session_set_ack_random_factor(sr.s, (coap_fixed_point_t){(uint16_t)(sr.arf_ms / 1000), (uint16_t)(sr.arf_ms % 1000)});
    coap_session_set_max_retransmit(sr.s, (uint16_t)sr.max_rt);
    // the oracle uses what the session reports back
    sr.max_rt = coap_session_get_max_retransmit(sr.s);
    { coap_fixed_point_t v = coap_session_get_ack_timeout(sr.s); sr.at_ms = v.integer_part * 1000u + v.fractional_part; }
    { coap_fixed_point_t v = coap_session_get_ack_random_factor(sr.s); sr.arf_ms = v.integer_part * 1000u + v.fractional_part; }
    cs.sess.push_back(sr);
  }
  // ---- plans ----
  std::vector<FaultDecision> faults(48);
  std::vector<std::vector<ReplyPlan>> replies(nsess, std::vector<ReplyPlan>(24));
  unsigned nmsg = sweep ? 1 : (unsigned)t.pick({4, 3, 2, 1}) + 1;
  struct Submit { int sess; bool ping; uint32_t at; };
  std::vector<Submit> submits;
  for (unsigned i = 0; i < nmsg; i++) {
    Submit s;
    s.sess = (int)t.range(0, nsess - 1);
    s.ping = t.chance(48);
    s.at = i == 0 ? 0 : (uint32_t)t.pick({2, 2, 1}) == 0 ? 0 : t.range(1, 20000);
    submits.push_back(s);
  }
  uint32_t maxdelay = 2 * cs.sess[0].at_ms;
  int cancel_which = -1, resp_sess = -1;
  uint32_t cancel_at = 0, resp_idx = 0, resp_delay = 0;
  bool resp_sent = false;
  if (sweep) {
    for (unsigned i = 0; i < 10; i++) if (sweep_mask & (1u << i)) faults[i].fate = DROP;
  } else {
    for (auto &f : faults) {
      switch (t.pick({6, 3, 1, 2})) {
      case 0: break;
      case 1: f.fate = DROP; break;
      case 2: f.dups = t.range(1, 2); f.dup_delay = t.range(0, 3000); break;
      default: f.delay = t.pick({1, 1}) ? t.range(1, 300) : t.range(300, maxdelay); break;
      }
    }
    for (auto &rv : replies) for (auto &r : rv) {
      r.action = (int)t.pick({5, 3, 1, 1});
      r.delay = t.pick({3, 1, 1}) == 0 ? 0 : t.range(1, maxdelay);
    }
    // the application declares one session disconnected while the messages of the others share the send queue.  Read from the END of
    // the tape (backwards): the plans above are longer than most generated tapes, and earlier tapes keep the meaning of their plans
    std::vector<uint8_t> rev(tape, tape + tlen);
    std::reverse(rev.begin(), rev.end());
    Tape tb(rev.data(), rev.size());
    if (tb.chance(70)) { cancel_which = (int)tb.range(0, nmsg - 1); cancel_at = tb.pick({1, 1}) ? tb.range(1, 4000) : tb.range(4000, 60000); }
    // one copy of a request is answered with the response itself (NON 2.05, no ACK): libcoap then takes the request out of the send
    // queue by token (coap_cancel_all_messages), again with the messages of the others around it
    if (tb.chance(70)) { resp_sess = (int)tb.range(0, nsess - 1); resp_idx = tb.range(0, 3); resp_delay = tb.pick({1, 1}) ? tb.range(1, 3000) : 0; }
  }
  bool lossy = false;
  w.fault = [&](const Datagram &, unsigned idx) {
    FaultDecision f = idx < faults.size() ? faults[idx] : FaultDecision();
    if (f.fate == DROP || f.delay || f.dups) lossy = true;
    return f;
  };
  for (unsigned i = 0; i < nsess; i++) {
    cs.sess[i].peer->on_rx = [&, i](World &ww, Peer &p, const Datagram &d) {
      ref::Msg m;
      if (!simh::parse(d.data, &m) || m.type != 0) return;
      SessRec &sr = cs.sess[i];
      ReplyPlan rp = sr.rx_count < replies[i].size() ? replies[i][sr.rx_count] : ReplyPlan{0, 0};
      sr.rx_count++;
      if ((int)i == resp_sess && sr.rx_count - 1 == resp_idx && m.code != 0) {
        resp_sent = true;
        ww.peer_send(&p, d.src, simh::response(1, 0x45, (uint16_t)(0x7000 + sr.rx_count), m.token, {'o', 'k'}), resp_delay);
        return;
      }
      if (rp.action == 1) return;
      if (rp.action == 3 && nsess > 1) {
        // the *other* peer acknowledges this mid on its own session: must have no effect on this message
        unsigned o = (i + 1) % nsess;
        coap_address_t la;
        Addr other_local = Addr::from_coap(coap_session_get_addr_local(cs.sess[o].s));
        (void)la;
        ww.peer_send(cs.sess[o].peer, other_local, simh::ack(m.mid), rp.delay);
        return;
      }
      ww.peer_send(&p, d.src, rp.action == 2 ? simh::rst(m.mid) : simh::ack(m.mid), rp.delay);
    };
  }
  std::vector<uint8_t> last_token;
  // a UDP client session that was declared disconnected has no socket any more (and libcoap asserts on a later send): the application
  // of this harness does not use it again
  std::vector<char> gone(nsess, 0);
  for (size_t si = 0; si < submits.size(); si++) {
    const Submit s = submits[si];
    w.at(w.now + s.at, [&, s, si]() {
      if (gone[(size_t)s.sess]) { w.note("submission skipped: session was disconnected"); return; }
      SessRec &sr = cs.sess[s.sess];
      coap_mid_t mid;
      if (s.ping) mid = coap_session_send_ping(sr.s);
      else {
        coap_pdu_t *pdu = coap_new_pdu(COAP_MESSAGE_CON, COAP_REQUEST_CODE_GET, sr.s);
        if (!pdu) return;
        uint8_t tok[8];
        size_t tl;
        coap_session_new_token(sr.s, &tl, tok);
        coap_add_token(pdu, tl, tok);
        last_token.assign(tok, tok + tl);
        coap_add_option(pdu, COAP_OPTION_URI_PATH, 4, (const uint8_t *)"test");
        mid = coap_send(sr.s, pdu);
      }
      if (mid == COAP_INVALID_MID) { w.note("submit refused"); return; }
      MsgRec m;
      if (!s.ping) m.token = last_token;
      m.order = (int)si;
      m.sess = s.sess;
      m.mid = (uint16_t)mid;
      m.ping = s.ping;
      m.submit_t = w.now;
      cs.msgs.push_back(m);
    });
  }
  // (end of the tape) the context is a server as well: strangers send it Non-confirmable requests now and then, and their sessions idle out
  // (session timeout of a few seconds) while the Confirmable messages above are being retransmitted - further timers next to the send queue
  if (!sweep && tb2.chance(90)) {
    Addr la = Addr::v4(10, 0, 9, 1, 5683);
    coap_address_t lac;
    la.to_coap(&lac);
    if (coap_new_endpoint(ctx, &lac, COAP_PROTO_UDP)) {
      coap_context_set_session_timeout(ctx, tb2.range(1, 20));
      unsigned nstr = tb2.range(1, 3);
      for (unsigned i = 0; i < nstr; i++) {
        Peer *sp = w.add_peer(Addr::v4(10, 0, 8, (uint8_t)(i + 1), (uint16_t)(50000 + i)));
        unsigned nrq = tb2.range(1, 3);
        uint32_t at = 0;
        for (unsigned k = 0; k < nrq; k++) {
          at += tb2.pick({1, 1}) ? tb2.range(0, 5000) : tb2.range(5000, 40000);
          ref::Msg g;
          g.type = 1; g.code = 1; g.mid = (uint16_t)(0x5000 + 16 * i + k); g.token = {(uint8_t)(0xA0 + i), (uint8_t)k};
          g.opts.push_back(ref::Opt{11, {'x'}});
          std::vector<uint8_t> bytes = ref::encode(g, ref::F_UDP);
          w.at_world(w.now + at, [&w, sp, la, bytes]() { w.peer_send(sp, la, bytes); });
        }
      }
      info->label("server-sessions-idling-out-beside-the-send-queue");
    }
  }
  if (cancel_which >= 0) w.at(w.now + cancel_at, [&]() {
    // the application declares the session of that submission disconnected: its messages in flight end with one NACK each, the messages
    // of the other sessions in the same send queue keep their schedule
    int sess = submits[(size_t)cancel_which].sess;
    for (auto &m : cs.msgs) if (m.sess == sess && m.cancel_t == INF) { m.cancel_t = w.now; m.cancel_ev = w.trace.size(); }
    w.note("application: coap_session_disconnected(session " + std::to_string(sess) + ")");
    gone[(size_t)sess] = 1;
    coap_session_disconnected(cs.sess[(size_t)sess].s, COAP_NACK_NOT_DELIVERABLE);
  });
  bool quiet = w.run(w.now + 40000000ull, 30000);
  int verdict = HELD;
  // ---- collect per-message facts from the trace ----
  std::vector<std::pair<uint64_t, uint64_t>> waits;
  for (size_t ei = 0; ei < w.trace.size(); ei++) {
    auto &e = w.trace[ei];
    if (e.kind == EV_WAIT) { waits.push_back({e.t, e.val}); continue; }
    ref::Msg m;
    if (e.kind == EV_SEND && e.from_lib) {
      if (!simh::parse(e.data, &m)) { info->fail("libcoap transmitted a malformed datagram"); verdict = VIOLATION; break; }
      if (m.type != 0) continue;
      bool found = false;
      for (auto &r : cs.msgs) {
        if (cs.sess[r.sess].peer->addr == e.dst && r.mid == m.mid) {
          found = true;
          if (r.tx.empty()) r.bytes = e.data;
          else if (r.bytes != e.data) r.bytes_differ = true;
          r.tx.push_back(e.t);
        }
      }
      if (!found) { info->fail("libcoap transmitted a CON (mid %u) that the application never submitted", m.mid); verdict = VIOLATION; break; }
    } else if (e.kind == EV_READ) {   // the moment libcoap reads it (a datagram that arrives at a closed socket is never read)
      if (!simh::parse(e.data, &m)) continue;
      if (m.type == 1 && m.code == 0x45) {
        for (auto &r : cs.msgs) {
          if (cs.sess[r.sess].peer->addr == e.src && !r.ping && r.token == m.token && !r.tx.empty() && e.t >= r.tx[0] && r.resp_t == INF) {
            Addr loc = Addr::from_coap(coap_session_get_addr_local(cs.sess[r.sess].s));
            if (loc == e.dst) { r.resp_t = e.t; r.resp_ev = ei; }
          }
        }
        continue;
      }
      if (m.type != 2 && m.type != 3) continue;
      for (auto &r : cs.msgs) {
        if (cs.sess[r.sess].peer->addr == e.src && r.mid == m.mid && !r.tx.empty() && e.t >= r.tx[0] && r.ack_t == INF) {
          // delivered to this session's socket?
          Addr loc = Addr::from_coap(coap_session_get_addr_local(cs.sess[r.sess].s));
          if (loc == e.dst) { r.ack_t = e.t; r.ack_type = m.type; r.ack_ev = ei; }
        }
      }
    }
  }
  for (auto &r : cs.msgs) if (r.cancel_ev != SIZE_MAX && r.cancel_ev <= r.ack_ev && !r.tx.empty()) { r.ack_t = r.cancel_t; r.ack_type = 4; r.ack_ev = r.cancel_ev; info->label("session-disconnected-by-application"); }
  bool any_retx = false;
  std::string why;
  for (auto &r : cs.msgs) {
    if (verdict != HELD) break;
    SessRec &sr = cs.sess[r.sess];
    // Q.6 fixed point representation tolerance, stated in DESIGN.md 4.6
    uint64_t tol = (2ull * sr.at_ms + sr.arf_ms + 2000) / 128 + 1;
    uint64_t Tmin = sr.at_ms > tol ? sr.at_ms - tol : 0;
    uint64_t Tmax = (uint64_t)sr.at_ms * sr.arf_ms / 1000 + tol;
    char id[64];
    snprintf(id, sizeof id, "sess %d mid %u%s", r.sess, r.mid, r.ping ? " (ping)" : "");
    if (r.tx.empty()) {
      // held back by NSTART and still waiting when the application declared the session disconnected: reported by its one NACK
      if (r.cancel_t != INF && r.nacks_with_pdu == 1 && r.nack_reason == COAP_NACK_NOT_DELIVERABLE) { info->label("held-message-nacked-at-disconnect"); continue; }
      if (quiet) { info->fail("%s: accepted CON was never transmitted", id); verdict = VIOLATION; }
      continue;
    }
    if (r.bytes_differ) { info->fail("%s: a retransmission is not byte-identical", id); verdict = VIOLATION; break; }
    size_t n = r.tx.size() - 1;
    if (n) any_retx = true;
    uint64_t t0 = r.tx[0], a = r.ack_t;
    // the response arrived before any ACK/RST/disconnect: libcoap stops retransmitting the request (RFC 7252 5.2.2 allows that, the
    // property does not ask for it), so only the schedule up to there is judged for this message - the point is what happens to the others
    bool by_response = r.resp_ev < r.ack_ev;
    if (by_response) info->label("request-ended-by-separate-response");
    for (size_t k = 1; k <= n && !by_response; k++) if (r.tx[k] > a) { info->fail("%s: transmitted at %llu after its %s was delivered at %llu", id, (unsigned long long)r.tx[k], r.ack_type == 2 ? "ACK" : "RST", (unsigned long long)a); verdict = VIOLATION; }
    if (verdict != HELD) break;
    if (n > sr.max_rt) { info->fail("%s: %zu retransmissions, MAX_RETRANSMIT is %u", id, n, sr.max_rt); verdict = VIOLATION; break; }
    uint64_t T = 0;
    bool Tknown = false;
    if (n >= 1) {
      T = r.tx[1] - r.tx[0];
      Tknown = true;
      if (T < Tmin || T > Tmax) { info->fail("%s: initial timeout %llu ms outside [%llu, %llu] (ACK_TIMEOUT %u ms, factor %u/1000)", id, (unsigned long long)T, (unsigned long long)Tmin, (unsigned long long)Tmax, sr.at_ms, sr.arf_ms); verdict = VIOLATION; break; }
      for (size_t k = 2; k <= n; k++) {
        uint64_t gap = r.tx[k] - r.tx[k - 1];
        if (gap != (T << (k - 1))) { info->fail("%s: gap before retransmission %zu is %llu ms, expected %llu (T=%llu doubled %zu times)", id, k, (unsigned long long)gap, (unsigned long long)(T << (k - 1)), (unsigned long long)T, k - 1); verdict = VIOLATION; }
      }
      if (verdict != HELD) break;
    }
    if (by_response) continue;
    uint64_t g = INF;  // give-up instant
    if (Tknown) {
      // every retransmission due strictly before the ACK/RST must have happened
      size_t must = 0, may = 0;
      for (unsigned k = 1; k <= sr.max_rt; k++) {
        uint64_t ek = t0 + T * ((1ull << k) - 1);
        if (ek < a) must++;
        else if (ek == a) may++;
      }
      if (n < must || n > must + may) { info->fail("%s: %zu retransmissions, schedule requires %zu%s before the %s", id, n, must, may ? " (+1 tie)" : "", a == INF ? "give-up" : "ACK/RST delivery"); verdict = VIOLATION; break; }
      g = t0 + T * ((1ull << (sr.max_rt + 1)) - 1);
    } else if (sr.max_rt >= 1) {
      // no retransmission observed: the ACK/RST must have arrived before the latest possible first deadline
      if (a == INF) { if (quiet) { info->fail("%s: never retransmitted and never answered", id); verdict = VIOLATION; break; } continue; }
      if (a > t0 + Tmax) { info->fail("%s: no retransmission although nothing arrived within %llu ms", id, (unsigned long long)Tmax); verdict = VIOLATION; break; }
    }
    // ---- outcome ----
    if (!quiet) continue;
    if (r.nacks_with_pdu > 1) { info->fail("%s: %d NACK calls for one message", id, r.nacks_with_pdu); verdict = VIOLATION; break; }
    if (r.nacks_null) info->label("nack-with-null-pdu(unmatched RST)");
    bool before, tie = false;
    if (Tknown) { before = a < g; tie = a == g; }
    else if (sr.max_rt == 0) {
      // give-up happens T after the only transmission, T unknown within [Tmin,Tmax]
      if (a < t0 + Tmin) before = true;
      else if (a > t0 + Tmax) before = false;
      else { before = r.nacks_with_pdu == 0 || r.nack_reason == COAP_NACK_RST; tie = true; }
    } else before = true;
    if (tie) { info->label("tie:ack-at-deadline"); continue; }
    if (before) {
      // a request whose message was acknowledged (empty ACK) is still waiting for its response: when the application later declares the
      // session disconnected libcoap tells it so with NACK(NOT_DELIVERABLE) - about the request, not about the message layer
      if (r.ack_type == 2 && r.nacks_with_pdu == 1 && r.nack_reason == COAP_NACK_NOT_DELIVERABLE && r.cancel_t != INF && r.nack_t >= r.cancel_t) { info->label("acked-request-nacked-at-disconnect"); continue; }
      if (r.ack_type == 2 && r.nacks_with_pdu != 0) { info->fail("%s: completed by ACK at %llu but a NACK (reason %d) was also reported", id, (unsigned long long)a, r.nack_reason); verdict = VIOLATION; break; }
      if (r.ack_type == 4 && (r.nacks_with_pdu != 1 || r.nack_reason != COAP_NACK_NOT_DELIVERABLE)) { info->fail("%s: session declared disconnected at %llu but NACK(NOT_DELIVERABLE) calls with PDU = %d (reason %d)", id, (unsigned long long)a, r.nacks_with_pdu, r.nack_reason); verdict = VIOLATION; break; }
      if (r.ack_type == 3 && (r.nacks_with_pdu != 1 || r.nack_reason != COAP_NACK_RST)) { info->fail("%s: RST delivered at %llu but NACK(RST) calls with PDU = %d (reason %d)", id, (unsigned long long)a, r.nacks_with_pdu, r.nack_reason); verdict = VIOLATION; break; }
      info->label(r.ack_type == 2 ? (n ? "outcome:ack-after-retransmit" : "outcome:ack-first-copy") : r.ack_type == 4 ? "outcome:session-disconnected" : "outcome:rst");
    } else {
      if (r.nacks_with_pdu != 1 || r.nack_reason != COAP_NACK_TOO_MANY_RETRIES) { info->fail("%s: gave up without exactly one NACK(TOO_MANY_RETRIES): %d call(s), reason %d", id, r.nacks_with_pdu, r.nack_reason); verdict = VIOLATION; break; }
      if (Tknown && r.nack_t != g) { info->fail("%s: gave up at %llu, schedule says %llu", id, (unsigned long long)r.nack_t, (unsigned long long)g); verdict = VIOLATION; break; }
      if (!Tknown && (r.nack_t < t0 + Tmin || r.nack_t > t0 + Tmax)) { info->fail("%s: MAX_RETRANSMIT 0: gave up after %llu ms, outside [%llu,%llu]", id, (unsigned long long)(r.nack_t - t0), (unsigned long long)Tmin, (unsigned long long)Tmax); verdict = VIOLATION; break; }
      info->label("outcome:gave-up");
    }
    // ---- reported waits never overshoot this message's next deadline ----
    if (Tknown) {
      uint64_t end = std::min(a, g);
      for (auto &wt : waits) {
        if (wt.first < t0 || wt.first >= end) continue;
        uint64_t next = INF;
        for (unsigned k = 1; k <= sr.max_rt + 1; k++) {
          uint64_t ek = t0 + T * ((1ull << k) - 1);
          if (ek > wt.first) { next = ek; break; }
        }
        if (next == INF) continue;
        if (wt.second == 0 || wt.first + wt.second > next) {
          info->fail("%s: at %llu the library reported a wait of %llu ms but the next deadline is at %llu", id, (unsigned long long)wt.first, (unsigned long long)wt.second, (unsigned long long)next);
          verdict = VIOLATION;
          break;
        }
      }
    }
  }
  if (verdict == HELD && cs.unexpected_response && !resp_sent) { info->fail("response handler called although the peer never sent a response"); verdict = VIOLATION; }
  if (!quiet || w.hit_cap) info->inconclusive = true;
  info->nontrivial = any_retx && lossy;
  if (cs.msgs.size() >= 2) info->label("several-messages");
  if (nsess >= 2) info->label("two-sessions");
  if (sweep) info->label("sweep");
  {
    char b[160];
    snprintf(b, sizeof b, "sessions=%u msgs=%zu AT=%u ARF=%u MAXRT=%u%s;", nsess, cs.msgs.size(), cs.sess[0].at_ms, cs.sess[0].arf_ms, cs.sess[0].max_rt, sweep ? " sweep" : "");
    info->rs(b); info->rs(simh::render_trace(w, 60));
    for (auto &e : w.trace) if (e.kind == EV_SEND || e.kind == EV_DELIVER || e.kind == EV_DROP) { info->mixu(e.t); info->mixu(e.kind); info->mixu(e.index); info->mix(e.data.data(), e.data.size()); }
  }
  w.remove_context(ctx);
  coap_free_context(ctx);
  G = nullptr;
  return verdict;
}
