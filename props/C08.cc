// C08 — NSTART bounds in-flight Confirmables; held messages go out in order, none lost.
#include "../sim/helpers.h"
using namespace verif;
using namespace sim;

const char *verif_property_id = "C08";
const char *verif_rule =
    "tape -> (A) 1..2 UDP client sessions, NSTART 1..4, a burst of 1..20 CON/NON submissions at generated times (many in the same instant), scripted peer that "
    "answers each *received copy* with ACK / RST / nothing after a generated delay, per-datagram loss/duplication/delay, small MAX_RETRANSMIT so that give-ups occur; "
    "(B) TCP client session whose scripted peer delays or withholds its CSM (or closes the connection) while 1..8 messages are submitted. "
    "Oracle from the wire trace: in-flight(session) = CONs first-transmitted and not yet {ACK/RST delivered, given up (NACK)} never exceeds NSTART; every accepted message "
    "is transmitted for the first time exactly once, CONs in submission order; NONs go out in the instant they are submitted (established session); at quiescence nothing is still held; "
    "(B) nothing is transmitted before the session is established except the library's own CSM, afterwards the held messages appear in order once each; if the session fails each held CON "
    "gets exactly one NACK and is never transmitted. Non-trivial = more CONs submitted than NSTART and a release from the hold queue happened (labelled by ACK / RST / give-up), "
    "or (B) >=2 messages held; distinct = by full wire trace In part of the longer tapes the sessions' message id counters coincide, and one datagram send of the library fails at the socket (ENOBUFS): the attempt counts as a transmission that was lost, a refused coap_send() as not accepted.";
size_t verif_max_tape = 300;

namespace {

struct Sub {
  int sess = 0;
  bool con = true;
  uint32_t at = 0;
  std::vector<uint8_t> token;
  // observed
  bool accepted = false;
  uint16_t mid = 0;
  uint64_t submit_t = 0;
  std::vector<uint64_t> tx;
  uint64_t done_t = UINT64_MAX;  // ACK/RST delivered or given up
  int nacks = 0;
  int nack_reason = -1;
  uint64_t nack_t = 0;
};

struct SessRec {
  coap_session_t *s = nullptr;
  Peer *peer = nullptr;
  StreamPeer *speer = nullptr;
  unsigned nstart = 1;
  unsigned rx_count = 0;
};

struct Case {
  World *w = nullptr;
  std::vector<SessRec> sess;
  std::vector<Sub> subs;
  int events_connected = 0, events_failed = 0;
  int fail_send = -1;                   // index of the one datagram send of the library that fails at the socket (-1: none)
  unsigned same_mids = 0;               // 0: no; 1..3: the other sessions' message id counters start at session 0's + (same_mids - 1)
  uint64_t connected_t = UINT64_MAX;   // when libcoap declared the session connected (peer's CSM, or its own CSM time-out)
} *G = nullptr;

Sub *by_token(const coap_pdu_t *pdu) {
  if (!pdu) return nullptr;
  coap_bin_const_t t = coap_pdu_get_token(pdu);
  for (auto &r : G->subs) if (r.accepted && r.token.size() == t.length && memcmp(r.token.data(), t.s, t.length) == 0) return &r;
  return nullptr;
}

void nack_handler(coap_session_t *, const coap_pdu_t *sent, const coap_nack_reason_t reason, const coap_mid_t mid) {
  Sub *r = by_token(sent);
  char b[96];
  snprintf(b, sizeof b, "NACK tok=%s mid=%d reason=%d", r ? hex(r->token, 8).c_str() : "?", mid, (int)reason);
  G->w->callback(b);
  if (!r) return;
  r->nacks++;
  r->nack_reason = (int)reason;
  r->nack_t = G->w->now;
}
coap_response_t resp_handler(coap_session_t *, const coap_pdu_t *, const coap_pdu_t *, const coap_mid_t) { return COAP_RESPONSE_OK; }
int event_handler(coap_session_t *, const coap_event_t ev) {
  char b[64];
  snprintf(b, sizeof b, "EVENT 0x%04x", (unsigned)ev);
  G->w->callback(b);
  if (ev == COAP_EVENT_SESSION_CONNECTED) { G->events_connected++; if (G->connected_t == UINT64_MAX) G->connected_t = G->w->now; }
  if (ev == COAP_EVENT_SESSION_FAILED || ev == COAP_EVENT_TCP_FAILED || ev == COAP_EVENT_TCP_CLOSED || ev == COAP_EVENT_SESSION_CLOSED) G->events_failed++;
  return 0;
}

struct ReplyPlan { int action; uint32_t delay; };  // 0 ACK 1 nothing 2 RST

int run_udp(Tape &t, Info *info, Case &cs, World &w, coap_context_t *ctx);
int run_tcp(Tape &t, Info *info, Case &cs, World &w, coap_context_t *ctx);

}  // namespace

void verif_init() {
  coap_startup();
  coap_set_log_level(COAP_LOG_EMERG);
}

int verif_case(const uint8_t *tape, size_t tlen, Info *info) {
  Tape t(tape, tlen);
  Case cs;
  G = &cs;
  World w;
  cs.w = &w;
  bool tcp = t.pick({4, 1}) == 1;
  seed_prng(t.u32());
  coap_context_t *ctx = coap_new_context(nullptr);
  if (!ctx) return OUT_OF_DOMAIN;
  w.add_context(ctx);
  coap_register_nack_handler(ctx, nack_handler);
  coap_register_response_handler(ctx, resp_handler);
  coap_register_event_handler(ctx, event_handler);
  cs.same_mids = tlen > 0 && tape[tlen - 1] < 100 ? 1 + tape[tlen - 1] % 3 : 0;
  // (third and second last tape byte, longer tapes) one datagram send fails at the socket (ENOBUFS): a message whose very first write fails is refused by
  // coap_send() or - when it came out of the hold queue - stays queued and goes out with the next retransmission; order and the NSTART bound hold
  if (!tcp && tlen >= 48 && tape[tlen - 2] < 90) { cs.fail_send = tape[tlen - 3] % 24; w.send_fails = [&cs](unsigned i) { return (int)i == cs.fail_send; }; info->label("one-socket-send-fails"); }
  int v = tcp ? run_tcp(t, info, cs, w, ctx) : run_udp(t, info, cs, w, ctx);
  w.remove_context(ctx);
  coap_free_context(ctx);
  G = nullptr;
  return v;
}

namespace {

void submit(Case &cs, World &w, Sub &s) {
  SessRec &sr = cs.sess[s.sess];
  coap_pdu_t *pdu = coap_new_pdu(s.con ? COAP_MESSAGE_CON : COAP_MESSAGE_NON, COAP_REQUEST_CODE_GET, sr.s);
  if (!pdu) return;
  coap_add_token(pdu, s.token.size(), s.token.data());
  coap_add_option(pdu, COAP_OPTION_URI_PATH, 1, (const uint8_t *)"x");
  s.submit_t = w.now;
  s.accepted = true;  // set before coap_send: a NACK may be reported from inside it
  coap_mid_t mid = coap_send(sr.s, pdu);
  if (mid == COAP_INVALID_MID) { s.accepted = false; w.note("submit refused"); return; }
  s.mid = (uint16_t)mid;
}

int run_udp(Tape &t, Info *info, Case &cs, World &w, coap_context_t *ctx) {
  unsigned nsess = (unsigned)t.pick({3, 1}) + 1;
  uint32_t at_ms = 2000;
  for (unsigned i = 0; i < nsess; i++) {
    SessRec sr;
    Addr pa = Addr::v4(10, 0, 1, (uint8_t)(i + 1), 5683);
    sr.peer = w.add_peer(pa);
    coap_address_t dst;
    pa.to_coap(&dst);
    sr.s = coap_new_client_session(ctx, nullptr, &dst, COAP_PROTO_UDP);
    if (!sr.s) return OUT_OF_DOMAIN;
    sr.nstart = (unsigned)t.pick({4, 3, 2, 1}) + 1;
    coap_session_set_nstart(sr.s, (uint16_t)sr.nstart);
    // (last tape byte) the sessions' message id counters coincide: each session draws its first id at random, equal ids in one send queue are legal
    if (i > 0 && cs.same_mids) { sr.s->tx_mid = (uint16_t)(cs.sess[0].s->tx_mid + (cs.same_mids - 1)); info->label("sessions-with-coinciding-message-ids"); }
    coap_session_set_max_retransmit(sr.s, (uint16_t)(t.pick({2, 2, 1}) + 1));
    sr.nstart = coap_session_get_nstart(sr.s);
    cs.sess.push_back(sr);
  }
  unsigned nsub = t.range(1, 20);
  uint32_t clock = 0;
  for (unsigned i = 0; i < nsub; i++) {
    Sub s;
    s.sess = (int)t.range(0, nsess - 1);
    s.con = t.pick({1, 4}) != 0;
    if (t.pick({3, 2, 1}) != 0) clock += t.pick({2, 1}) ? t.range(1, 200) : t.range(200, 9000);
    s.at = clock;
    s.token = {(uint8_t)(0xA0 + s.sess), (uint8_t)i};
    cs.subs.push_back(s);
  }
  // optionally the application declares session 0 failed (public API coap_session_disconnected) while messages are in flight / held
  // (drawn before the long fault / reply plans so that short tapes reach this decision)
  uint64_t fail_at = UINT64_MAX;
  bool inject_failure = t.chance(56);
  if (inject_failure) fail_at = w.now + (t.pick({1, 1}) ? t.range(0, 300) : t.range(300, clock + 6000));
  std::vector<FaultDecision> faults(64);
  for (auto &f : faults) {
    switch (t.pick({8, 3, 2, 2})) {
    case 0: break;
    case 1: f.fate = DROP; break;
    case 2: f.dups = t.range(1, 2); f.dup_delay = t.range(0, 1500); break;
    default: f.delay = t.range(1, at_ms - 100); break;
    }
  }
  w.fault = [&](const Datagram &, unsigned idx) { return idx < faults.size() ? faults[idx] : FaultDecision(); };
  std::vector<std::vector<ReplyPlan>> replies(nsess, std::vector<ReplyPlan>(40));
  for (auto &rv : replies) for (auto &r : rv) { r.action = (int)t.pick({6, 2, 2}); r.delay = t.pick({3, 2}) == 0 ? 0 : t.range(1, 3000); }
  for (unsigned i = 0; i < nsess; i++) {
    cs.sess[i].peer->on_rx = [&, i](World &ww, Peer &p, const Datagram &d) {
      ref::Msg m;
      if (!simh::parse(d.data, &m) || m.type != 0) return;  // only Confirmables are acknowledged / reset
      SessRec &sr = cs.sess[i];
      ReplyPlan rp = sr.rx_count < replies[i].size() ? replies[i][sr.rx_count] : ReplyPlan{0, 0};
      sr.rx_count++;
      if (rp.action == 1) return;
      ww.peer_send(&p, d.src, rp.action == 2 ? simh::rst(m.mid) : simh::ack(m.mid), rp.delay);
    };
  }
  for (size_t i = 0; i < cs.subs.size(); i++) w.at(w.now + cs.subs[i].at, [&, i]() { submit(cs, w, cs.subs[i]); });
  if (inject_failure) {
    w.at(fail_at, [&]() { w.note("APP: coap_session_disconnected(session 0)"); coap_session_disconnected(cs.sess[0].s, COAP_NACK_NOT_DELIVERABLE); });
    info->label("session-failure-injected");
  }
  bool quiet = w.run(w.now + 50000000ull, 80000);

  int verdict = HELD;
  bool held_happened = false, rel_ack = false, rel_rst = false, rel_giveup = false;
  for (unsigned si = 0; si < nsess && verdict == HELD; si++) {
    SessRec &sr = cs.sess[si];
    Addr local = Addr::from_coap(coap_session_get_addr_local(sr.s));
    // replay the trace for this session
    std::map<uint16_t, Sub *> bymid;
    for (auto &s : cs.subs) if (s.accepted && s.sess == (int)si) bymid[s.mid] = &s;
    std::set<uint16_t> inflight;
    std::vector<uint16_t> first_tx_order;
    unsigned ncon = 0;
    for (auto &s : cs.subs) if (s.accepted && s.sess == (int)si && s.con) ncon++;
    for (auto &e : w.trace) {
      ref::Msg m;
      if (e.kind == EV_CALLBACK && e.note.compare(0, 4, "NACK") == 0) {
        // give-up / RST reported: message leaves the in-flight set
        for (auto &kv : bymid) if (kv.second->nacks && kv.second->nack_t == e.t && e.note.find("tok=" + hex(kv.second->token, 8)) != std::string::npos) {
          if (inflight.erase(kv.first)) { if (kv.second->nack_reason == COAP_NACK_TOO_MANY_RETRIES) rel_giveup = true; }
          kv.second->done_t = std::min(kv.second->done_t, e.t);
        }
        continue;
      }
      if (e.kind == EV_NOTE && si == 0 && e.note.compare(0, 4, "APP:") == 0) {
        // session failure: everything accepted and not yet completed is reported by exactly one NACK, now
        for (auto &kv : bymid) {
          Sub *s = kv.second;
          if (!s->con || s->submit_t > e.t || (s->submit_t == e.t && s->tx.empty() && s->nacks == 0)) continue;
          bool completed_before = s->done_t != UINT64_MAX && s->done_t < e.t;
          if (completed_before) continue;
          if (s->done_t == e.t && !inflight.count(kv.first) && !s->tx.empty() && s->nacks <= 1) { continue; }  // completed in the same instant
          if (s->nacks != 1) {
            info->fail("session 0 failed at %llu: Confirmable tok=%s (%s) was reported by %d NACK(s), expected exactly one", (unsigned long long)e.t, hex(s->token, 8).c_str(), s->tx.empty() ? "held" : "in flight", s->nacks);
            verdict = VIOLATION;
            break;
          }
          s->done_t = std::min(s->done_t, e.t);
          if (s->tx.empty()) { first_tx_order.push_back(kv.first); s->tx.push_back(e.t); info->label("held-at-failure"); }
        }
        inflight.clear();
        if (verdict != HELD) break;
        continue;
      }
      if ((e.kind != EV_SEND && e.kind != EV_DELIVER) || !simh::parse(e.data, &m)) continue;
      if (e.kind == EV_SEND && e.from_lib && e.src == local) {
        auto it = bymid.find(m.mid);
        if (it == bymid.end() || !ref::is_request(m.code)) continue;
        Sub *s = it->second;
        s->tx.push_back(e.t);
        if (s->tx.size() == 1) {
          first_tx_order.push_back(m.mid);
          if (s->con) {
            if (e.t > s->submit_t) held_happened = true;
            inflight.insert(m.mid);
            if (inflight.size() > sr.nstart) {
              // giving up on a message and releasing the next held one happen inside one library call; the NACK
              // callback for the abandoned message is reported later in the same instant
              for (auto &x : w.trace) {
                if (x.t != e.t || x.kind != EV_CALLBACK || x.note.compare(0, 4, "NACK") != 0) continue;
                for (auto &kv : bymid) if (kv.second->nacks && kv.second->nack_t == x.t && x.note.find("tok=" + hex(kv.second->token, 8)) != std::string::npos && kv.first != m.mid) {
                  if (inflight.erase(kv.first)) { rel_giveup = true; kv.second->done_t = std::min(kv.second->done_t, x.t); }
                }
              }
            }
            if (inflight.size() > sr.nstart) {
              info->fail("session %u: %zu Confirmables in flight at %llu, NSTART is %u (mid %u just transmitted)", si, inflight.size(), (unsigned long long)e.t, sr.nstart, m.mid);
              verdict = VIOLATION;
              break;
            }
          } else if (e.t != s->submit_t) {
            info->fail("session %u: Non-confirmable tok=%s submitted at %llu was held until %llu", si, hex(s->token, 8).c_str(), (unsigned long long)s->submit_t, (unsigned long long)e.t);
            verdict = VIOLATION;
            break;
          }
        } else if (s->con && !inflight.count(m.mid) && s->done_t != UINT64_MAX && e.t > s->done_t) {
          info->fail("session %u: mid %u transmitted at %llu after it was completed at %llu", si, m.mid, (unsigned long long)e.t, (unsigned long long)s->done_t);
          verdict = VIOLATION;
          break;
        }
      } else if (e.kind == EV_DELIVER && e.dst == local && m.code == 0 && (m.type == 2 || m.type == 3)) {
        auto it = bymid.find(m.mid);
        if (it == bymid.end()) continue;
        if (inflight.erase(m.mid)) { if (m.type == 2) rel_ack = true; else rel_rst = true; it->second->done_t = std::min(it->second->done_t, e.t); }
      }
    }
    if (verdict != HELD) break;
    // order of first transmissions of CONs == submission order
    std::vector<uint16_t> want, got;
    for (auto &s : cs.subs) if (s.accepted && s.sess == (int)si && s.con) want.push_back(s.mid);
    for (uint16_t m : first_tx_order) if (bymid[m]->con) got.push_back(m);
    if (quiet && got.size() != want.size()) {
      info->fail("session %u: %zu Confirmables accepted but %zu ever transmitted (network quiet, nothing pending)", si, want.size(), got.size());
      verdict = VIOLATION;
      break;
    }
    for (size_t k = 0; k < got.size() && k < want.size(); k++) if (got[k] != want[k]) {
      info->fail("session %u: Confirmables transmitted out of submission order (position %zu: mid %u, expected %u)", si, k, got[k], want[k]);
      verdict = VIOLATION;
      break;
    }
    if (verdict != HELD) break;
    if (quiet) for (auto &s : cs.subs) if (s.accepted && s.sess == (int)si && s.tx.empty()) { info->fail("session %u: accepted message tok=%s never transmitted", si, hex(s.token, 8).c_str()); verdict = VIOLATION; break; }
    for (auto &s : cs.subs) if (s.accepted && s.sess == (int)si && s.nacks > 1) { info->fail("session %u: %d NACKs for tok=%s", si, s.nacks, hex(s.token, 8).c_str()); verdict = VIOLATION; break; }
    if (ncon > sr.nstart && held_happened && (rel_ack || rel_rst || rel_giveup)) info->nontrivial = true;
  }
  if (rel_ack && held_happened) info->label("release-by-ACK");
  if (rel_rst && held_happened) info->label("release-by-RST");
  if (rel_giveup && held_happened) info->label("release-by-give-up");
  info->label("A:udp");
  if (!quiet || w.hit_cap) info->inconclusive = true;
  {
    char b[96];
    snprintf(b, sizeof b, "UDP sessions=%u nstart=%u subs=%zu;", nsess, cs.sess[0].nstart, cs.subs.size());
    info->rs(b);
    info->rs(simh::render_trace(w, 80));
    for (auto &e : w.trace) if (e.kind == EV_SEND || e.kind == EV_DELIVER || e.kind == EV_DROP) { info->mixu(e.t); info->mixu(e.kind); info->mix(e.data.data(), e.data.size()); }
  }
  return verdict;
}

// split a TCP byte stream (as written by libcoap) into messages with the reference decoder
std::vector<ref::Msg> split_stream(const std::vector<uint8_t> &rx, bool *ok) {
  std::vector<ref::Msg> out;
  size_t p = 0;
  *ok = true;
  while (p < rx.size()) {
    size_t left = rx.size() - p;
    const uint8_t *d = rx.data() + p;
    int ln = d[0] >> 4, tkl = d[0] & 15;
    size_t hdr = ln < 13 ? 1 : ln == 13 ? 2 : ln == 14 ? 3 : 5;
    if (left < hdr + 1) break;
    size_t declared = ln < 13 ? (size_t)ln : ln == 13 ? 13u + d[1] : ln == 14 ? 269u + (d[1] << 8 | d[2]) : 65805u + ((uint32_t)d[1] << 24 | d[2] << 16 | d[3] << 8 | d[4]);
    size_t tl = tkl <= 12 ? (size_t)tkl : 0;
    size_t ext = 0;
    if (tkl == 13) { if (left < hdr + 2) break; tl = 13u + d[hdr + 1]; ext = 1; }
    else if (tkl == 14) { if (left < hdr + 3) break; tl = 269u + (d[hdr + 1] << 8 | d[hdr + 2]); ext = 2; }
    size_t total = hdr + 1 + ext + tl + declared;
    if (left < total) break;
    ref::DecodeResult r = ref::decode(d, total, ref::F_TCP, false);
    if (!r.ok) { *ok = false; break; }
    out.push_back(r.msg);
    p += total;
  }
  return out;
}

int run_tcp(Tape &t, Info *info, Case &cs, World &w, coap_context_t *ctx) {
  Addr pa = Addr::v4(10, 0, 1, 1, 5683);
  SessRec sr;
  sr.speer = w.add_stream_peer(pa, true);
  coap_address_t dst;
  pa.to_coap(&dst);
  // the peer's script: when (and whether) its CSM arrives, or the connection is closed instead
  int fate = (int)t.pick({3, 2, 1});  // 0 CSM after delay, 1 close after delay, 2 never answers
  uint32_t delay = t.pick({1, 3}) ? t.range(1, 20000) : 0;
  unsigned nsub = t.range(1, 8);
  std::vector<uint32_t> times;
  uint32_t clock = 0;
  for (unsigned i = 0; i < nsub; i++) { if (t.pick({2, 1})) clock += t.range(1, 6000); times.push_back(clock); }
  sr.s = coap_new_client_session(ctx, nullptr, &dst, COAP_PROTO_TCP);
  if (!sr.s) return OUT_OF_DOMAIN;
  cs.sess.push_back(sr);
  for (unsigned i = 0; i < nsub; i++) {
    Sub s;
    s.con = t.pick({1, 2}) != 0;
    s.at = times[i];
    s.token = {0xB0, (uint8_t)i};
    cs.subs.push_back(s);
  }
  StreamPeer *sp = cs.sess[0].speer;
  uint64_t established_at = UINT64_MAX, failed_at = UINT64_MAX;
  if (fate == 0) w.at_world(w.now + delay, [&, sp]() {
    ref::Msg csm;
    csm.code = 0xE1;
    std::vector<uint8_t> b = ref::encode(csm, ref::F_TCP);
    w.stream_send(sp, b, {b.size()});
    established_at = w.now;
  });
  else if (fate == 1) w.at_world(w.now + delay, [&, sp]() { w.stream_close(sp); failed_at = w.now; });
  for (size_t i = 0; i < cs.subs.size(); i++) w.at(w.now + cs.subs[i].at, [&, i]() { submit(cs, w, cs.subs[i]); });
  // answer pings etc.: not needed; run for a bounded virtual time (a TCP session has no retransmission timers)
  bool quiet = w.run(w.now + 400000ull, 40000);
  (void)quiet;
  // libcoap also declares the session connected when the peer's CSM does not arrive within its time-out (coap_client_delay_first():
  // "timeout waiting for CSM response"): from then on the held messages go out
  if (cs.connected_t < established_at) { established_at = cs.connected_t; info->label("connected-by-csm-timeout"); }
  int verdict = HELD;
  bool ok;
  std::vector<ref::Msg> msgs = split_stream(sp->rx, &ok);
  if (!ok) { info->fail("TCP: libcoap wrote a malformed stream"); return VIOLATION; }
  // requests on the wire, in order
  std::vector<std::vector<uint8_t>> wire_tokens;
  for (auto &m : msgs) if (ref::is_request(m.code)) wire_tokens.push_back(m.token);
  std::vector<std::vector<uint8_t>> want_before, want_all;
  for (auto &s : cs.subs) if (s.accepted) want_all.push_back(s.token);
  // when was each request byte written? use the stream TX trace: nothing but the CSM may be written before establishment
  size_t bytes_before = 0;
  for (auto &e : w.trace) if (e.kind == EV_STREAM_TX && e.t < established_at) bytes_before += e.val;
  {
    bool ok2;
    std::vector<uint8_t> early(sp->rx.begin(), sp->rx.begin() + std::min(bytes_before, sp->rx.size()));
    std::vector<ref::Msg> em = split_stream(early, &ok2);
    for (auto &m : em) if (!ref::is_signaling(m.code)) { info->fail("TCP: a non-signalling message (code %u.%02u) was written before the peer's CSM arrived", m.code >> 5, m.code & 31); verdict = VIOLATION; }
  }
  bool came_up = established_at != UINT64_MAX && established_at < failed_at;
  if (verdict == HELD && came_up && fate == 1) {
    // connected by libcoap's CSM time-out, closed by the peer later: what went out is a duplicate-free, order-preserving part of what was accepted
    size_t pos = 0;
    for (auto &tk : wire_tokens) {
      while (pos < want_all.size() && want_all[pos] != tk) pos++;
      if (pos == want_all.size()) { info->fail("TCP: tok=%s on the wire out of submission order or twice", hex(tk, 8).c_str()); verdict = VIOLATION; break; }
      pos++;
    }
    info->label("B:tcp-up-by-timeout-then-closed");
  } else if (verdict == HELD && came_up) {
    if (wire_tokens != want_all) {
      info->fail("TCP: after establishment %zu requests appeared on the wire, %zu were accepted (order/exactly-once violated)", wire_tokens.size(), want_all.size());
      verdict = VIOLATION;
    }
    for (auto &s : cs.subs) if (verdict == HELD && s.accepted && s.nacks) { info->fail("TCP: NACK for tok=%s although the session came up", hex(s.token, 8).c_str()); verdict = VIOLATION; }
  } else if (verdict == HELD) {
    // session failed / never came up: nothing held may be transmitted; on failure each held CON gets exactly one NACK
    for (auto &s : cs.subs) {
      if (!s.accepted) continue;
      bool onwire = std::find(wire_tokens.begin(), wire_tokens.end(), s.token) != wire_tokens.end();
      if (onwire) { info->fail("TCP: tok=%s transmitted although the session never became established", hex(s.token, 8).c_str()); verdict = VIOLATION; break; }
      if (fate == 1 && s.con && s.submit_t < failed_at) {
        if (s.nacks != 1) {
          if (s.nacks == 2 && &s == &cs.subs[0] && exclude_known(info, "first-held-message-nacked-twice-on-disconnect")) continue;
          info->fail("TCP: session failed, held Confirmable tok=%s got %d NACK(s)", hex(s.token, 8).c_str(), s.nacks);
          verdict = VIOLATION;
          break;
        }
      }
    }
  }
  unsigned held = 0;
  for (auto &s : cs.subs) if (s.accepted && s.submit_t < std::min(established_at, failed_at)) held++;
  info->nontrivial = held >= 2;
  info->label(fate == 0 ? "B:tcp-established-late" : fate == 1 ? "B:tcp-closed-before-csm" : "B:tcp-peer-silent");
  {
    char b[128];
    snprintf(b, sizeof b, "TCP fate=%d delay=%u subs=%zu held=%u wire_requests=%zu;", fate, delay, cs.subs.size(), held, wire_tokens.size());
    info->rs(b);
    for (auto &s : cs.subs) { snprintf(b, sizeof b, " sub{%s at=%u acc=%d nacks=%d}", s.con ? "CON" : "NON", s.at, s.accepted, s.nacks); info->rs(b); }
    info->rs(simh::render_trace(w, 40));
    info->mix(sp->rx.data(), sp->rx.size());
    info->mixu(fate); info->mixu(delay);
    for (auto &s : cs.subs) { info->mixu(s.at); info->mixu(s.con); }
  }
  return verdict;
}

}  // namespace
