// C17 — persisted observe state survives a crash at any point and is restored on restart.
// The history runs in a forked child whose stdio / rename calls made by the persistence code are counted (ld --wrap); the child _exit()s
// immediately before or after the k-th call (unflushed stdio buffers are lost exactly as with a kill).  The parent then restarts a
// server on the same three files and compares with the model's state before / after the interrupted operation.
#include "../sim/helpers.h"
#include <cstdarg>
#include <sys/stat.h>
#include <sys/wait.h>
#include <unistd.h>
using namespace verif;
using namespace sim;

const char *verif_property_id = "C17";
const char *verif_rule =
    "tape -> save_freq 1..10, history of 1..12 operations over up to 3 dynamic (observable) resources created through the unknown-resource PUT handler and up to 3 scripted UDP observers, "
    "from {create resource, delete resource, register observation, cancel observation (Observe=1), change resource 1..12 times with an I/O step after each change}, and up to 4 crash points "
    "(index k of a stdio / rename / remove call made by the persistence code while the history runs, crash immediately before or after it) plus the crash-free run that ends with the last "
    "operation; the enumeration tier walks every k, before and after, of a catalogue of histories. Oracle after restart of a fresh server (coap_persist_startup on the same files): no "
    "sanitizer report; the set of dynamic resources equals the model's set before or after the interrupted operation; the observations that are served when every resource is changed once "
    "(peer address and token of each notification, no re-registration) equal the model's set before or after the interrupted operation restricted to existing resources - each file may be on "
    "either side, none may be torn; the first Observe value sent for a resource after the restart is greater (24-bit serial arithmetic) than every value sent for it before the crash. "
    "Non-trivial = >= 2 dynamic resources or >= 2 observations at the crash point and a crash inside an update; distinct = by history + crash point";
size_t verif_max_tape = 120;

// ---------------- crash injection: wrappers for the stdio / file calls of libcoap's persistence code ----------------
namespace {
struct Io {
  bool armed = false;        // count (and crash) only while the history runs
  long count = 0;
  long crash_at = -1;        // index of the call to crash at
  bool crash_after = false;  // false: before the call is made, true: right after it returned
  std::set<FILE *> files;    // streams opened by the code under test
  void (*on_crash)() = nullptr;
} IO;

void hit(bool after) {
  if (!IO.armed) return;
  if (!after) {
    if (IO.count == IO.crash_at && !IO.crash_after) { if (IO.on_crash) IO.on_crash(); _exit(77); }
  } else {
    if (IO.count == IO.crash_at && IO.crash_after) { if (IO.on_crash) IO.on_crash(); _exit(77); }
    IO.count++;
  }
}
}  // namespace

extern "C" {
FILE *__real_fopen(const char *, const char *);
size_t __real_fread(void *, size_t, size_t, FILE *);
size_t __real_fwrite(const void *, size_t, size_t, FILE *);
char *__real_fgets(char *, int, FILE *);
int __real_fflush(FILE *);
int __real_fclose(FILE *);
int __real_rename(const char *, const char *);
int __real_remove(const char *);

FILE *__wrap_fopen(const char *p, const char *m) {
  if (!IO.armed) return __real_fopen(p, m);
  hit(false);
  FILE *f = __real_fopen(p, m);
  if (f) IO.files.insert(f);
  hit(true);
  return f;
}
size_t __wrap_fread(void *b, size_t s, size_t n, FILE *f) {
  if (!IO.armed || !IO.files.count(f)) return __real_fread(b, s, n, f);
  hit(false); size_t r = __real_fread(b, s, n, f); hit(true); return r;
}
size_t __wrap_fwrite(const void *b, size_t s, size_t n, FILE *f) {
  if (!IO.armed || !IO.files.count(f)) return __real_fwrite(b, s, n, f);
  hit(false); size_t r = __real_fwrite(b, s, n, f); hit(true); return r;
}
char *__wrap_fgets(char *b, int n, FILE *f) {
  if (!IO.armed || !IO.files.count(f)) return __real_fgets(b, n, f);
  hit(false); char *r = __real_fgets(b, n, f); hit(true); return r;
}
int __wrap_fprintf(FILE *f, const char *fmt, ...) {
  va_list ap;
  va_start(ap, fmt);
  int r;
  if (!IO.armed || !IO.files.count(f)) r = vfprintf(f, fmt, ap);
  else { hit(false); r = vfprintf(f, fmt, ap); hit(true); }
  va_end(ap);
  return r;
}
int __wrap_fflush(FILE *f) {
  if (!IO.armed || !f || !IO.files.count(f)) return __real_fflush(f);
  hit(false); int r = __real_fflush(f); hit(true); return r;
}
int __wrap_fclose(FILE *f) {
  if (!IO.armed || !IO.files.count(f)) return __real_fclose(f);
  hit(false); IO.files.erase(f); int r = __real_fclose(f); hit(true); return r;
}
int __wrap_rename(const char *a, const char *b) {
  if (!IO.armed) return __real_rename(a, b);
  hit(false); int r = __real_rename(a, b); hit(true); return r;
}
int __wrap_remove(const char *a) {
  if (!IO.armed) return __real_remove(a);
  hit(false); int r = __real_remove(a); hit(true); return r;
}
}

namespace {
typedef std::vector<uint8_t> Bytes;

const unsigned NRES = 3, NOBS = 3;
const Addr SRV = Addr::v4(10, 0, 0, 1, 5683);

struct Op { int kind; unsigned res, obs, n; };   // 0 create 1 delete 2 register 3 cancel 4 change
struct Model {
  std::set<unsigned> resources;
  std::set<std::pair<unsigned, unsigned>> observations;   // (observer, resource)
  void apply(const Op &op) {
    switch (op.kind) {
    case 0: resources.insert(op.res); break;
    case 1: resources.erase(op.res); for (auto it = observations.begin(); it != observations.end();) { if (it->second == op.res) it = observations.erase(it); else ++it; } break;
    case 2: if (resources.count(op.res)) observations.insert({op.obs, op.res}); break;
    case 3: observations.erase({op.obs, op.res}); break;
    default: break;
    }
  }
};

std::string op_str(const Op &op) {
  char b[48];
  static const char *N[] = {"create", "delete", "register", "cancel", "change"};
  if (op.kind <= 1) snprintf(b, sizeof b, "%s(d%u)", N[op.kind], op.res);
  else if (op.kind <= 3) snprintf(b, sizeof b, "%s(o%u,d%u)", N[op.kind], op.obs, op.res);
  else snprintf(b, sizeof b, "change(d%u x%u)", op.res, op.n);
  return b;
}

// ---- the server application (as in examples/coap-server.c: dynamic resources through the unknown-resource handler) ----
struct App { unsigned value[NRES] = {0, 0, 0}; World *w = nullptr; coap_context_t *ctx = nullptr; } *APP = nullptr;

int res_index(const coap_resource_t *r) {
  coap_str_const_t *p = coap_resource_get_uri_path((coap_resource_t *)r);
  if (p && p->length == 2 && p->s[0] == 'd' && p->s[1] >= '0' && p->s[1] < '0' + (int)NRES) return p->s[1] - '0';
  return -1;
}
void h_get(coap_resource_t *r, coap_session_t *, const coap_pdu_t *, const coap_string_t *, coap_pdu_t *response) {
  int i = res_index(r);
  char b[24];
  int n = snprintf(b, sizeof b, "v%u", i >= 0 ? APP->value[i] : 0);
  coap_pdu_set_code(response, COAP_RESPONSE_CODE_CONTENT);
  coap_add_data(response, (size_t)n, (const uint8_t *)b);
}
void h_put(coap_resource_t *r, coap_session_t *, const coap_pdu_t *, const coap_string_t *, coap_pdu_t *response) {
  int i = res_index(r);
  if (i >= 0) APP->value[i]++;
  coap_pdu_set_code(response, COAP_RESPONSE_CODE_CHANGED);
  coap_resource_notify_observers(r, nullptr);
}
void h_delete(coap_resource_t *r, coap_session_t *session, const coap_pdu_t *, const coap_string_t *, coap_pdu_t *response) {
  coap_pdu_set_code(response, COAP_RESPONSE_CODE_DELETED);
  coap_delete_resource(coap_session_get_context(session), r);
}
void h_unknown(coap_resource_t *, coap_session_t *session, const coap_pdu_t *request, const coap_string_t *query, coap_pdu_t *response) {
  coap_string_t *uri_path = coap_get_uri_path(request);
  if (!uri_path) { coap_pdu_set_code(response, COAP_RESPONSE_CODE_NOT_FOUND); return; }
  coap_resource_t *r = coap_resource_init((coap_str_const_t *)uri_path, COAP_RESOURCE_FLAGS_RELEASE_URI);
  if (!r) { coap_pdu_set_code(response, COAP_RESPONSE_CODE_INTERNAL_ERROR); return; }
  coap_register_handler(r, COAP_REQUEST_PUT, h_put);
  coap_register_handler(r, COAP_REQUEST_DELETE, h_delete);
  coap_register_handler(r, COAP_REQUEST_GET, h_get);
  coap_resource_set_get_observable(r, 1);
  coap_add_resource(coap_session_get_context(session), r);
  h_put(r, session, request, query, response);
}

struct Files { std::string dir, dyn, obs, cnt; };

coap_context_t *start_server(World &w, const Files &f, unsigned save_freq) {
  coap_context_t *ctx = coap_new_context(nullptr);
  if (!ctx) return nullptr;
  coap_address_t la;
  SRV.to_coap(&la);
  coap_new_endpoint(ctx, &la, COAP_PROTO_UDP);
  coap_resource_t *u = coap_resource_unknown_init2(h_unknown, 0);
  coap_add_resource(ctx, u);
  w.add_context(ctx);
  coap_persist_startup(ctx, f.dyn.c_str(), f.obs.c_str(), f.cnt.c_str(), save_freq);
  return ctx;
}

Addr obs_addr(unsigned o) { return Addr::v4(10, 0, 4, (uint8_t)(o + 1), (uint16_t)(42000 + o)); }
Bytes obs_token(unsigned o, unsigned r) { return {(uint8_t)(0xa0 + o), (uint8_t)(0xb0 + r)}; }

// what the child tells the parent (through a pipe, written with write(2) at the moment of the crash or at the end)
struct Report {
  int32_t ops_done = 0;              // operations completely performed
  int32_t in_op = -1;                // operation in progress at the crash (-1: none)
  int64_t io_calls = 0;
  uint32_t max_observe[NRES];        // highest Observe value sent per resource in this life (after its last deletion)
  uint32_t have_observe[NRES];
  uint32_t deleted[NRES];            // the resource was deleted during this life: earlier values belong to a previous incarnation
};
Report REP;
int REP_FD = -1;
World *CHILD_W = nullptr;

bool serial_gt(uint32_t a, uint32_t b) { return (a > b && a - b < (1u << 23)) || (a < b && b - a > (1u << 23)); }

void scan_trace_into_report() {
  if (!CHILD_W) return;
  for (auto &e : CHILD_W->trace) {
    if (e.kind != EV_SEND || !e.from_lib) continue;
    ref::Msg m;
    if (!simh::parse(e.data, &m) || (m.code >> 5) != 2) continue;
    // 2.02 Deleted: this incarnation of the resource (and every observation of it) is over; a resource created later under the same
    // name is a new one and counts from the beginning
    if (m.code == 0x42 && m.token.size() == 2 && m.token[0] == 0x02 && m.token[1] < NRES) { REP.have_observe[m.token[1]] = 0; REP.deleted[m.token[1]] = 1; continue; }
    const ref::Opt *ob = simh::find_opt(m, 6);
    if (!ob || m.token.size() != 2) continue;
    unsigned r = m.token[1] - 0xb0;
    if (r >= NRES) continue;
    uint32_t v = simh::opt_uint(ob->val);
    if (!REP.have_observe[r] || serial_gt(v, REP.max_observe[r])) { REP.max_observe[r] = v; REP.have_observe[r] = 1; }
  }
}
void write_report() {
  scan_trace_into_report();
  REP.io_calls = IO.count;
  if (REP_FD >= 0) { ssize_t r = write(REP_FD, &REP, sizeof REP); (void)r; }
}

// runs in the forked child; never returns
[[noreturn]] void child_run(const Files &f, unsigned save_freq, const std::vector<Op> &ops, long crash_at, bool crash_after, bool orderly_stop, int fd, unsigned life) {
  // a restarted process does not find its objects at the addresses of the previous one
  static volatile char *padding;
  padding = (volatile char *)malloc(4096 * (1 + 3 * life) + 17 * life);
  if (padding) padding[0] = 1;
  REP_FD = fd;
  memset(&REP, 0, sizeof REP);
  REP.in_op = -1;
  App app;
  APP = &app;
  World w;
  CHILD_W = &w;
  app.w = &w;
  seed_prng(11 + life);
  IO.crash_at = crash_at;
  IO.crash_after = crash_after;
  IO.on_crash = write_report;
  coap_context_t *ctx = start_server(w, f, save_freq);
  if (!ctx) _exit(3);
  app.ctx = ctx;
  std::vector<Peer *> peers;
  for (unsigned o = 0; o < NOBS; o++) {
    Peer *p = w.add_peer(obs_addr(o));
    p->on_rx = [](World &ww, Peer &pp, const Datagram &d) { if (d.data.size() >= 4 && (d.data[0] & 0x30) == 0 && d.data[1] != 0) ww.peer_send(&pp, d.src, simh::ack((uint16_t)(d.data[2] << 8 | d.data[3]))); };
    peers.push_back(p);
  }
  uint16_t mid = (uint16_t)(0x100 + 0x1000 * life);
  auto send = [&](unsigned o, uint8_t code, unsigned r, int observe, const Bytes &token) {
    ref::Msg m;
    m.type = 0; m.code = code; m.mid = mid++; m.token = token;
    if (observe >= 0) m.opts.push_back(ref::Opt{6, observe ? Bytes{(uint8_t)observe} : Bytes{}});
    m.opts.push_back(ref::Opt{11, {'d', (uint8_t)('0' + r)}});
    if (code == 3) m.payload = {'x'};
    w.peer_send(peers[o], SRV, ref::encode(m, ref::F_UDP));
  };
  IO.armed = true;
  for (size_t i = 0; i < ops.size(); i++) {
    const Op &op = ops[i];
    REP.in_op = (int32_t)i;
    switch (op.kind) {
    case 0: send(0, 3, op.res, -1, {0x01, (uint8_t)op.res}); w.run(w.now + 10, 20000); break;
    case 1: send(0, 4, op.res, -1, {0x02, (uint8_t)op.res}); w.run(w.now + 10, 20000); break;
    case 2: send(op.obs, 1, op.res, 0, obs_token(op.obs, op.res)); w.run(w.now + 10, 20000); break;
    case 3: send(op.obs, 1, op.res, 1, obs_token(op.obs, op.res)); w.run(w.now + 10, 20000); break;
    default:
      for (unsigned k = 0; k < op.n; k++) {
        char name[3] = {'d', (char)('0' + op.res), 0};
        coap_str_const_t key = {2, (const uint8_t *)name};
        coap_resource_t *r = coap_get_resource_from_uri_path(ctx, &key);
        if (r) { app.value[op.res]++; coap_resource_notify_observers(r, nullptr); }
        w.run(w.now + 10, 20000);
      }
      break;
    }
    REP.ops_done = (int32_t)(i + 1);
    REP.in_op = -1;
  }
  IO.armed = false;
  if (orderly_stop) { coap_persist_stop(ctx); w.remove_context(ctx); coap_free_context(ctx); }
  write_report();
  _exit(0);
}

std::vector<Op> gen_history(Tape &t) {
  std::vector<Op> ops;
  unsigned n = t.range(1, 12);
  Model m;
  for (unsigned i = 0; i < n; i++) {
    Op op{0, t.range(0, NRES - 1), t.range(0, NOBS - 1), 0};
    // steer towards histories with something to persist: create first, register on existing resources
    size_t kind = m.resources.empty() ? 0 : t.pick({3, 1, 4, 1, 4});
    if (kind == 2 || kind == 3 || kind == 4 || kind == 1) { if (!m.resources.count(op.res)) op.res = *m.resources.begin(); }
    op.kind = (int)kind;
    if (kind == 4) op.n = t.pick({3, 1}) == 0 ? t.range(1, 4) : t.range(5, 12);
    ops.push_back(op);
    m.apply(op);
  }
  return ops;
}

// fixed catalogue for the enumeration tier (each inner list is one life of the server: it is killed after its last operation and restarted)
std::vector<std::vector<Op>> catalogue(unsigned h, unsigned *save_freq) {
  *save_freq = 1;
  switch (h) {
  case 0: return {{{0, 0, 0, 0}, {0, 1, 0, 0}, {2, 0, 0, 0}, {4, 0, 0, 3}}};
  case 1: *save_freq = 4; return {{{0, 0, 0, 0}, {2, 0, 0, 0}, {2, 0, 1, 0}, {4, 0, 0, 9}, {3, 0, 0, 0}, {4, 0, 0, 2}}};
  case 2: return {{{0, 0, 0, 0}, {0, 1, 0, 0}, {0, 2, 0, 0}, {2, 1, 1, 0}, {1, 1, 0, 0}, {4, 0, 0, 1}}};
  case 3: *save_freq = 10; return {{{0, 1, 0, 0}, {2, 1, 2, 0}, {4, 1, 0, 12}, {0, 0, 0, 0}, {2, 0, 2, 0}, {4, 0, 0, 3}}};
  case 4: *save_freq = 3; return {{{0, 0, 0, 0}, {2, 0, 0, 0}, {4, 0, 0, 5}, {1, 0, 0, 0}, {0, 0, 0, 0}, {2, 0, 1, 0}, {4, 0, 0, 4}}};
  case 5: return {{{0, 0, 0, 0}, {2, 0, 0, 0}, {2, 0, 1, 0}, {4, 0, 0, 2}}, {{3, 0, 0, 0}, {4, 0, 0, 2}}, {{4, 0, 0, 1}, {0, 1, 0, 0}}};
  default: *save_freq = 5; return {{{0, 0, 0, 0}, {0, 1, 0, 0}, {2, 1, 2, 0}, {4, 1, 0, 7}}, {{2, 0, 1, 0}, {1, 1, 0, 0}, {4, 0, 0, 3}, {3, 0, 1, 0}}};
  }
}
const unsigned NCAT = 7;

std::string g_base;   // scratch directory of this process

}  // namespace

void verif_init() {
  coap_startup();
  coap_set_log_level(getenv("C17_DEBUG") ? COAP_LOG_DEBUG : COAP_LOG_EMERG);
  const char *out = getenv("VERIF_OUT");
  char tmpl[256];
  snprintf(tmpl, sizeof tmpl, "%s/c17-XXXXXX", out && *out ? out : "/tmp");
  if (!mkdtemp(tmpl)) { perror("mkdtemp"); abort(); }
  g_base = tmpl;
  atexit([]() { std::string c = "rm -rf '" + g_base + "'"; (void)!system(c.c_str()); });
}

namespace {

// one (history, crash point): fork the child, then restart and judge.  Returns HELD / VIOLATION; fills *io_calls.
int one_point(Info *info, const std::vector<std::vector<Op>> &lives, unsigned save_freq, long crash_at, bool crash_after, bool orderly, long *io_calls, bool *inside_update, std::string *desc) {
  Files f;
  f.dir = g_base;
  f.dyn = f.dir + "/dyn"; f.obs = f.dir + "/obs"; f.cnt = f.dir + "/cnt";
  for (auto p : {f.dyn, f.obs, f.cnt, f.dyn + ".tmp", f.obs + ".tmp", f.cnt + ".tmp"}) unlink(p.c_str());
  Model before, after;
  uint32_t acc_max[NRES] = {0, 0, 0};
  bool acc_have[NRES] = {false, false, false};
  Report rep;
  char hb[160];
  bool crashed = false;
  for (size_t li = 0; li < lives.size(); li++) {
    bool last = li + 1 == lives.size();
    const std::vector<Op> &ops = lives[li];
    int pfd[2];
    if (pipe(pfd) != 0) return OUT_OF_DOMAIN;
    fflush(nullptr);
    pid_t pid = fork();
    if (pid < 0) { close(pfd[0]); close(pfd[1]); return OUT_OF_DOMAIN; }
    if (pid == 0) {
      close(pfd[0]);
      alarm(60);
      // earlier lives end abruptly after their last operation (a kill between two operations)
      child_run(f, save_freq, ops, last ? crash_at : -1, last ? crash_after : false, last ? orderly : false, pfd[1], (unsigned)li);
    }
    close(pfd[1]);
    memset(&rep, 0, sizeof rep);
    ssize_t got = read(pfd[0], &rep, sizeof rep);
    close(pfd[0]);
    int st = 0;
    waitpid(pid, &st, 0);
    crashed = WIFEXITED(st) && WEXITSTATUS(st) == 77;
    bool finished = WIFEXITED(st) && WEXITSTATUS(st) == 0;
    snprintf(hb, sizeof hb, "life %zu: crash %s call %ld (%s); ", li, crash_after ? "after" : "before", last ? crash_at : -1L, crashed ? ("in op " + std::to_string(rep.in_op)).c_str() : finished ? "completed" : "child died");
    *desc += hb;
    if (!crashed && !finished) {
      info->fail("the server process died by itself while running the history (status 0x%x) - %s", st, desc->c_str());
      return VIOLATION;
    }
    if (got != (ssize_t)sizeof rep) { info->fail("no report from the child"); return VIOLATION; }
    for (unsigned r = 0; r < NRES; r++) {
      if (rep.deleted[r]) acc_have[r] = false;
      if (rep.have_observe[r] && (!acc_have[r] || serial_gt(rep.max_observe[r], acc_max[r]))) { acc_max[r] = rep.max_observe[r]; acc_have[r] = true; }
    }
    if (last) {
      *io_calls = (long)rep.io_calls;
      *inside_update = crashed && rep.in_op >= 0;
    }
    for (int i = 0; i < rep.ops_done; i++) before.apply(ops[(size_t)i]);
    after = before;
    if (crashed && rep.in_op >= 0 && (size_t)rep.in_op < ops.size()) after.apply(ops[(size_t)rep.in_op]);
  }
  for (unsigned r = 0; r < NRES; r++) { rep.max_observe[r] = acc_max[r]; rep.have_observe[r] = acc_have[r] ? 1 : 0; }
  snprintf(hb, sizeof hb, "%s", desc->c_str());
  // ---- restart ----
  App app;
  APP = &app;
  World w;
  app.w = &w;
  seed_prng(12);
  coap_context_t *ctx = start_server(w, f, save_freq);
  if (!ctx) { APP = nullptr; return OUT_OF_DOMAIN; }
  app.ctx = ctx;
  int verdict = HELD;
  std::vector<Datagram> rx[NOBS];
  for (unsigned o = 0; o < NOBS; o++) {
    Peer *p = w.add_peer(obs_addr(o));
    p->on_rx = [&rx, o](World &ww, Peer &pp, const Datagram &d) {
      rx[o].push_back(d);
      if (d.data.size() >= 4 && (d.data[0] & 0x30) == 0 && d.data[1] != 0) ww.peer_send(&pp, d.src, simh::ack((uint16_t)(d.data[2] << 8 | d.data[3])));
    };
  }
  w.run(w.now + 10, 20000);
  std::set<unsigned> resources;
  coap_resource_t *rp[NRES] = {nullptr, nullptr, nullptr};
  for (unsigned r = 0; r < NRES; r++) {
    char name[3] = {'d', (char)('0' + r), 0};
    coap_str_const_t key = {2, (const uint8_t *)name};
    rp[r] = coap_get_resource_from_uri_path(ctx, &key);
    if (rp[r]) resources.insert(r);
  }
  auto set_str = [](const std::set<unsigned> &s) { std::string o = "{"; for (auto x : s) o += "d" + std::to_string(x) + " "; return o + "}"; };
  auto obs_str = [](const std::set<std::pair<unsigned, unsigned>> &s) { std::string o = "{"; for (auto &x : s) o += "o" + std::to_string(x.first) + ">d" + std::to_string(x.second) + " "; return o + "}"; };
  if (resources != before.resources && resources != after.resources) {
    info->fail("after restart the dynamic resources are %s; before the interrupted operation they were %s, after it %s (%s)", set_str(resources).c_str(), set_str(before.resources).c_str(), set_str(after.resources).c_str(), hb);
    verdict = VIOLATION;
  }
  if (verdict == HELD) {
    // change every resource once: who is notified, without anybody registering again?
    for (unsigned r = 0; r < NRES; r++) if (rp[r]) { app.value[r] += 100; coap_resource_notify_observers(rp[r], nullptr); }
    w.run(w.now + 50, 40000);
    std::set<std::pair<unsigned, unsigned>> served;
    uint32_t first_obs[NRES];
    bool have_first[NRES] = {false, false, false};
    for (unsigned o = 0; o < NOBS && verdict == HELD; o++) for (auto &d : rx[o]) {
      ref::Msg m;
      if (!simh::parse(d.data, &m) || m.code == 0) continue;
      const ref::Opt *ob = simh::find_opt(m, 6);
      if ((m.code >> 5) != 2 || !ob || m.token.size() != 2 || m.token[0] != 0xa0 + o || m.token[1] < 0xb0 || m.token[1] >= 0xb0 + NRES) {
        info->fail("after restart observer o%u receives an unexpected message (code %u.%02u token %s) (%s)", o, m.code >> 5, m.code & 31, hex(m.token, 4).c_str(), hb);
        verdict = VIOLATION;
        break;
      }
      unsigned r = m.token[1] - 0xb0;
      served.insert({o, r});
      uint32_t v = simh::opt_uint(ob->val);
      if (!have_first[r]) { have_first[r] = true; first_obs[r] = v; }
    }
    if (verdict == HELD) {
      auto restrict_to = [&](const std::set<std::pair<unsigned, unsigned>> &s) { std::set<std::pair<unsigned, unsigned>> o; for (auto &x : s) if (resources.count(x.second)) o.insert(x); return o; };
      auto b = restrict_to(before.observations), a = restrict_to(after.observations);
      if (served != b && served != a) {
        info->fail("after restart a change of every resource notifies %s; the observations before the interrupted operation were %s, after it %s (%s)", obs_str(served).c_str(), obs_str(b).c_str(), obs_str(a).c_str(), hb);
        verdict = VIOLATION;
      }
    }
    for (unsigned r = 0; r < NRES && verdict == HELD; r++) if (have_first[r] && rep.have_observe[r] && !serial_gt(first_obs[r], rep.max_observe[r])) {
      info->fail("resource d%u: the first Observe value after restart is %u, but %u had been sent before the crash (save_freq %u) (%s)", r, first_obs[r], rep.max_observe[r], save_freq, hb);
      verdict = VIOLATION;
    }
  }
  coap_persist_stop(ctx);
  w.remove_context(ctx);
  coap_free_context(ctx);
  APP = nullptr;
  return verdict;
}

}  // namespace

int verif_case(const uint8_t *tape, size_t tlen, Info *info) {
  Tape t(tape, tlen);
  std::vector<std::vector<Op>> lives;
  unsigned save_freq;
  std::vector<std::pair<long, bool>> points;
  bool enumerated = tlen >= 1 && tape[0] == 0xFF;
  if (enumerated) {
    t.u8();
    unsigned h = t.u8() % NCAT;
    lives = catalogue(h, &save_freq);
    long k = (long)t.u16();
    points.push_back({k, t.u8() & 1});
  } else {
    save_freq = t.range(1, 10);
    std::vector<Op> ops = gen_history(t);
    // 1..3 lives: the server is killed between two operations and restarted
    unsigned nl = (unsigned)t.pick({3, 3, 1}) + 1;
    size_t at = 0;
    for (unsigned l = 0; l < nl && at < ops.size(); l++) {
      size_t n = l + 1 == nl ? ops.size() - at : t.range(1, (uint32_t)(ops.size() - at));
      lives.push_back(std::vector<Op>(ops.begin() + (long)at, ops.begin() + (long)(at + n)));
      at += n;
    }
  }
  std::string hist = "save_freq=" + std::to_string(save_freq) + " ";
  for (size_t l = 0; l < lives.size(); l++) { if (l) hist += "| restart | "; for (auto &op : lives[l]) hist += op_str(op) + " "; }
  hist += "; ";
  int verdict = HELD;
  bool nontrivial = false;
  long n_io = 0;
  bool inside = false;
  std::string desc;
  if (!enumerated) {
    // the crash-free last life first (also gives the number of I/O calls): once ending abruptly after the last operation, once with an orderly stop
    verdict = one_point(info, lives, save_freq, -1, false, t.flag(), &n_io, &inside, &desc);
    hist += desc;
    if (verdict == HELD && n_io > 0) {
      unsigned np = t.range(1, 4);
      for (unsigned i = 0; i < np; i++) points.push_back({(long)t.range(0, (uint32_t)n_io - 1), t.flag()});
    }
  }
  Model m;
  size_t max_res = 0, max_obs = 0;
  for (auto &l : lives) for (auto &op : l) { m.apply(op); max_res = std::max(max_res, m.resources.size()); max_obs = std::max(max_obs, m.observations.size()); }
  for (auto &p : points) {
    if (verdict != HELD) break;
    long io = 0;
    desc.clear();
    verdict = one_point(info, lives, save_freq, p.first, p.second, false, &io, &inside, &desc);
    hist += desc;
    if (enumerated && io <= p.first && verdict == HELD && !inside) { info->rs(hist); return OUT_OF_DOMAIN; }   // k beyond the last life's calls
    if (inside && (max_res >= 2 || max_obs >= 2)) nontrivial = true;
  }
  if (lives.size() > 1) info->label("restarted-more-than-once");
  info->nontrivial = nontrivial;
  info->rs(hist);
  info->mix(hist.data(), hist.size());
  return verdict;
}

size_t verif_enum(uint64_t i, std::vector<uint8_t> *tape) {
  const uint64_t KMAX = 700;
  if (tape) {
    unsigned h = (unsigned)(i % NCAT);
    uint64_t rest = i / NCAT;
    unsigned ba = (unsigned)(rest & 1), k = (unsigned)(rest >> 1);
    *tape = {0xFF, (uint8_t)h, (uint8_t)(k & 0xff), (uint8_t)(k >> 8), (uint8_t)ba};
  }
  return NCAT * KMAX * 2;
}
