#!/usr/bin/env python3
"""tools/gen_report.py: regenerate the generated tables of DESIGN.md (between the BEGIN/END GENERATED markers):
the seeded-change catch table (from seeded/*/meta.json) and the list of repaired / recorded defects (from known_findings.json)."""
import glob, json, os, re, sys
ROOT = os.path.dirname(os.path.dirname(os.path.abspath(__file__)))
out = []
out.append("### 10.1 Seeded changes and the checks that catch them\n")
out.append("Every row is a change to obgm/libcoap written by a sub-agent that saw only the property text, confirmed in a scratch worktree "
           "(builds, `testdriver` 176/176, its own demonstration passes on the clean tree and fails with the change) and kept under "
           "`seeded/<name>/` (patch.diff, demo, meta.json). `git -C /repo apply seeded/<name>/patch.diff`, run the check, `git -C /repo checkout -- .`.\n")
out.append("| seeded change | property | needs | result |")
out.append("|---|---|---|---|")
for d in sorted(glob.glob(os.path.join(ROOT, "seeded", "*"))):
    mp = os.path.join(d, "meta.json")
    if not os.path.exists(mp):
        continue
    m = json.load(open(mp))
    res = m.get("confirmed", {}).get("result", "")
    out.append("| `%s` | %s | %s | %s |" % (os.path.basename(d), m.get("breaks_property", ""), m.get("needs_to_manifest", "").replace("|", "/"), res.replace("|", "/")))
out.append("")
kf = json.load(open(os.path.join(ROOT, "known_findings.json")))
out.append("### 10.2 Defects repaired in obgm/libcoap (`fix:` commits)\n")
out.append("Each entry names the property whose check exposed it, the commit in /repo and the replay tape that fails again if the defect returns.\n")
for f in kf.get("fixed", []):
    out.append("- " + f[len("fixed: "):] if f.startswith("fixed: ") else "- " + f)
out.append("")
out.append("### 10.3 Known findings (genuine, recorded, not repaired)\n")
for f in kf.get("findings", []):
    out.append("- **%s** `%s`: %s" % (f["property"], f["key"], f["what"]))
out.append("")
text = "\n".join(out)
p = os.path.join(ROOT, "DESIGN.md")
s = open(p).read()
b, e = "<!-- BEGIN GENERATED -->", "<!-- END GENERATED -->"
if b not in s:
    s += "\n" + b + "\n" + e + "\n"
s = s[:s.index(b) + len(b)] + "\n" + text + "\n" + s[s.index(e):]
open(p, "w").write(s)
print("DESIGN.md tables regenerated: %d seeded, %d fixed, %d findings" % (len(glob.glob(os.path.join(ROOT, "seeded", "*"))), len(kf.get("fixed", [])), len(kf.get("findings", []))))
