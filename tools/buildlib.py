#!/usr/bin/env python3
"""Build /repo (current working tree) with the repository's own CMake files into
/verif/.build/<flavour>-<hash>/ and print the build directory.

Flavours:
  asan  clang, -O1 -g, ASan+UBSan+bounds, fuzzer-no-link coverage, asserts on
  tsan  clang, -O1 -g, ThreadSanitizer, asserts on
  stock gcc, the flags the baseline uses, guard OFF, tests ON (baseline_off_cmd)

The hash covers every file the build depends on, so a change anywhere in the
working tree (sources, headers, CMake files, *.in templates) gives a fresh build.
"""
import fcntl
import hashlib
import re
import os
import shutil
import subprocess
import sys

REPO = os.environ.get("VERIF_REPO", "/repo")
ROOT = os.path.dirname(os.path.dirname(os.path.abspath(__file__)))
# VERIF_SCRATCH redirects every output (builds, failures, evidence) - used to run the checks against
# a scratch worktree (VERIF_REPO) without disturbing the builds of /repo
SCRATCH = os.environ.get("VERIF_SCRATCH")
BUILD_ROOT = os.path.join(SCRATCH or ROOT, ".build")
GUARD = "OBGM_LIBCOAP_VERIF"

FLAVOURS = {
    "asan": dict(
        cc="clang",
        cflags="-O1 -g -fsanitize=address,undefined,bounds -fno-sanitize-recover=undefined "
               "-fsanitize=fuzzer-no-link -fno-omit-frame-pointer -D%s" % GUARD,
        extra=["-DENABLE_TESTS=OFF"],
    ),
    "tsan": dict(
        cc="clang",
        cflags="-O1 -g -fsanitize=thread -fno-omit-frame-pointer -D%s" % GUARD,
        extra=["-DENABLE_TESTS=OFF"],
    ),
    # the repository's other build system (autotools, its own defaults: thread safe + recursive lock check): C13 "both build systems"
    "tsan-at": dict(
        autotools=True,
        cc="clang",
        cflags="-O1 -g -fsanitize=thread -fno-omit-frame-pointer -D%s" % GUARD,
        extra=["--disable-doxygen", "--disable-manpages", "--disable-examples", "--disable-tests", "--disable-shared", "--with-gnutls"],
    ),
    "stock": dict(
        cc="cc",
        cflags="-Wno-error",
        extra=["-DENABLE_TESTS=ON", "-DCMAKE_BUILD_TYPE=RelWithDebInfo"],
    ),
}


def tree_hash(flavour):
    h = hashlib.sha256()
    h.update(flavour.encode())
    h.update(repr(FLAVOURS[flavour]).encode())
    roots = ["src", "include", "cmake", "tests", "ext/tinydtls/CMakeLists.txt", "m4", "autogen.sh", "Makefile.am"]
    files = []
    for r in roots:
        p = os.path.join(REPO, r)
        if os.path.isfile(p):
            files.append(p)
            continue
        for dp, dn, fn in os.walk(p):
            dn.sort()
            for f in sorted(fn):
                files.append(os.path.join(dp, f))
    for f in sorted(os.listdir(REPO)):
        p = os.path.join(REPO, f)
        if os.path.isfile(p) and (f.endswith(".in") or f in ("CMakeLists.txt", "configure.ac")):
            files.append(p)
    for f in files:
        try:
            with open(f, "rb") as fh:
                data = fh.read()
        except OSError:
            continue
        h.update(os.path.relpath(f, REPO).encode())
        h.update(b"\0")
        h.update(hashlib.sha256(data).digest())
    return h.hexdigest()[:16]


def build_autotools(bdir, fl):
    """autogen.sh writes into the source tree: work on a copy of /repo's working tree inside the build directory."""
    src = os.path.join(bdir, "tree")
    os.makedirs(src)

    def run(cmd, cwd, what):
        out = subprocess.run(cmd, cwd=cwd, stdout=subprocess.PIPE, stderr=subprocess.STDOUT, text=True)
        if out.returncode != 0:
            sys.stderr.write(out.stdout[-6000:])
            raise SystemExit("buildlib: autotools %s failed" % what)
    run(["rsync", "-a", "--exclude", ".git", "--exclude", "_build", "--exclude", "build", REPO + "/", src + "/"], bdir, "copy")
    run(["./autogen.sh"], src, "autogen")
    run([os.path.join(src, "configure"), "CC=" + fl["cc"], "CFLAGS=" + fl["cflags"]] + fl["extra"], bdir, "configure")
    run(["make", "-j", "16"], bdir, "make")
    libs = [f for f in os.listdir(os.path.join(bdir, ".libs")) if f.startswith("libcoap-3") and f.endswith(".a")]
    if not libs:
        raise SystemExit("buildlib: autotools build produced no static library")
    # same layout as the CMake build directory: libcoap-3.a, coap_config.h and include/coap3/coap_defines.h at the top
    shutil.copy(os.path.join(bdir, ".libs", libs[0]), os.path.join(bdir, "libcoap-3.a"))


def build(flavour, quiet=True):
    os.makedirs(BUILD_ROOT, exist_ok=True)
    lock = open(os.path.join(BUILD_ROOT, ".lock-" + flavour), "w")
    fcntl.flock(lock, fcntl.LOCK_EX)
    try:
        hsh = tree_hash(flavour)
        bdir = os.path.join(BUILD_ROOT, "%s-%s" % (flavour, hsh))
        stamp = os.path.join(bdir, ".ok")
        if os.path.exists(stamp):
            return bdir
        # remove stale builds of this flavour (disk)
        for d in os.listdir(BUILD_ROOT):
            if re.fullmatch(re.escape(flavour) + "-[0-9a-f]{16}", d) and d != os.path.basename(bdir):
                shutil.rmtree(os.path.join(BUILD_ROOT, d), ignore_errors=True)
        shutil.rmtree(bdir, ignore_errors=True)
        fl = FLAVOURS[flavour]
        if fl.get("autotools"):
            build_autotools(bdir, fl)
            open(stamp, "w").write(hsh)
            return bdir
        cmd = ["cmake", "-G", "Ninja", "-S", REPO, "-B", bdir,
               "-DCMAKE_C_COMPILER=" + fl["cc"], "-DCMAKE_BUILD_TYPE=",
               "-DENABLE_DOCS=OFF", "-DENABLE_EXAMPLES=OFF",
               "-DCMAKE_C_FLAGS=" + fl["cflags"]] + fl["extra"]
        out = subprocess.run(cmd, stdout=subprocess.PIPE, stderr=subprocess.STDOUT, text=True)
        if out.returncode != 0:
            sys.stderr.write(out.stdout)
            raise SystemExit("buildlib: cmake configure failed")
        out = subprocess.run(["cmake", "--build", bdir, "-j", "16"],
                             stdout=subprocess.PIPE, stderr=subprocess.STDOUT, text=True)
        if out.returncode != 0:
            sys.stderr.write(out.stdout[-6000:])
            raise SystemExit("buildlib: build failed")
        open(stamp, "w").write(hsh)
        return bdir
    finally:
        fcntl.flock(lock, fcntl.LOCK_UN)
        lock.close()


if __name__ == "__main__":
    fl = sys.argv[1] if len(sys.argv) > 1 else "asan"
    print(build(fl))
