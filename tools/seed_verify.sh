#!/bin/bash
# tools/seed_verify.sh <seed_dir> <check-id>...
# Confirms a seeded change independently, then runs our checks against it:
#   1. scratch worktree of /repo HEAD; stock build; testdriver 176/176; demo passes
#   2. apply patch.diff; rebuild; testdriver still 176/176; demo fails
#   3. run ./check <id> --tier quick for each id with VERIF_REPO pointing at the patched worktree
# Prints a one-line summary per step and removes the worktree and all build output afterwards.
set -u
SEED=$(cd "$1" && pwd); shift
NAME=$(echo "$SEED" | tr '/' '_')
WT=/tmp/sv$NAME
OUT=/tmp/sv-out$NAME
VERIF=$(cd "$(dirname "$0")/.." && pwd)
cleanup() { git -C /repo worktree remove --force "$WT" >/dev/null 2>&1; rm -rf "$WT" "$OUT"; git -C /repo worktree prune; }
trap cleanup EXIT
cleanup
git -C /repo worktree add -q --detach "$WT" HEAD || exit 3
build() { (cd "$WT" && cmake -G Ninja -S . -B build -DENABLE_DOCS=OFF -DENABLE_EXAMPLES=OFF -DENABLE_TESTS=ON -DCMAKE_BUILD_TYPE=Debug >/dev/null 2>&1 && cmake --build build 2>&1 | grep -E "error|warning: " | head -5; test -x build/testdriver); }
tests() { (cd "$WT/build" && ./testdriver 2>&1 | grep -E "^ +tests" | awk '{print $3"/"$4" failed="$5}'); }
demo() { (cd "$SEED" && TMPDIR=/tmp bash ./build_demo.sh "$WT/build" "$WT" > "$OUT.demo.log" 2>&1; echo $?); }
mkdir -p "$OUT"
build || { echo "SEED $SEED: clean build failed"; exit 3; }
echo "clean: tests $(tests) demo-exit=$(demo)"
if ! git -C "$WT" apply "$SEED/patch.diff"; then echo "SEED $SEED: patch does not apply to HEAD"; exit 4; fi
build || { echo "SEED $SEED: patched build failed"; exit 3; }
echo "patched: tests $(tests) demo-exit=$(demo)"
rm -rf "$WT/build"
for id in "$@"; do
  res=$(cd "$VERIF" && VERIF_REPO="$WT" VERIF_SCRATCH="$OUT" timeout 3000 ./check "$id" --tier "${SEED_TIER:-quick}" 2>&1 | grep -E "^VIOLATION|^check $id" | cut -c1-200 | head -4)
  if echo "$res" | grep -q "^VIOLATION"; then echo "check $id: CAUGHT  $(echo "$res" | grep -c '^VIOLATION') violation line(s); $(echo "$res" | grep '^check' )"; else echo "check $id: MISSED  $res"; fi
  if [ -n "${SEED_KEEP:-}" ]; then mkdir -p "$SEED_KEEP"; cp -r "$OUT/failures" "$SEED_KEEP/" 2>/dev/null; fi
done
