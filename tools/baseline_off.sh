#!/bin/sh
# hooks.baseline_off_cmd: build /repo with the stock flags (guard OFF, gcc, tests ON) out of tree and
# run the repository's CUnit driver; prints the per-test results and fails if any test fails.
set -e
cd "$(dirname "$0")/.."
B=$(python3 tools/buildlib.py stock)
cd "$B"
./testdriver > testdriver.log 2>&1 || { cat testdriver.log; exit 1; }
cat testdriver.log
grep -q "tests *176 *176 *176 *0" testdriver.log
