#!/bin/bash
# tools/seeds_recheck.sh [name...]: apply every kept seeded change to a scratch worktree of /repo HEAD and run the check(s) named in its
# meta.json (quick tier): each has to report a violation.  One line per seeded change.  SR_TAG=<suffix> gives the run its own scratch
# paths so that several runs can work side by side.
cd "$(dirname "$0")/.."
NAMES=${@:-$(ls seeded)}
for n in $NAMES; do
  d=seeded/$n
  [ -f $d/patch.diff ] || continue
  ids=$(python3 -c "import json;print(' '.join(json.load(open('$d/meta.json'))['caught_by']))")
  WT=/tmp/sr-wt${SR_TAG:-}; OUT=/tmp/sr-out${SR_TAG:-}
  git -C /repo worktree remove --force $WT >/dev/null 2>&1; rm -rf $WT $OUT; git -C /repo worktree prune
  git -C /repo worktree add -q --detach $WT HEAD || { echo "$n WORKTREE-FAILED"; continue; }
  if ! git -C $WT apply $PWD/$d/patch.diff 2>/dev/null; then echo "$n DOES-NOT-APPLY"; continue; fi
  for id in $ids; do
    res=$(VERIF_SEED=1 VERIF_REPO=$WT VERIF_SCRATCH=$OUT timeout 3000 ./check $id --tier quick 2>&1 | grep -cE "^VIOLATION")
    if [ "$res" -gt 0 ]; then echo "$n CAUGHT by $id"; else echo "$n MISSED by $id"; fi
  done
done
git -C /repo worktree remove --force /tmp/sr-wt${SR_TAG:-} >/dev/null 2>&1; rm -rf /tmp/sr-wt${SR_TAG:-} /tmp/sr-out${SR_TAG:-}; git -C /repo worktree prune
