#!/bin/bash
# tools/runall.sh [seed] [tier]: every registered check once, in /verif against /repo (this is what refreshes evidence/*.json); one line per check
cd "$(dirname "$0")/.."
SEED=${1:-1}; TIER=${2:-quick}
for id in $(python3 -c "import sys; sys.path.insert(0,'props'); import config; print(' '.join(sorted(config.PROPS)))"); do
  s=$(date +%s)
  out=$(VERIF_SEED=$SEED ./check $id --tier $TIER 2>&1)
  rc=$?
  echo "$id rc=$rc $(( $(date +%s)-s ))s $(echo "$out" | grep -E '^check ' | cut -c1-120) $(echo "$out" | grep -c '^VIOLATION') violation line(s) $(echo "$out" | grep -c '^KNOWN-FINDING') known"
done
