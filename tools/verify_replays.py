#!/usr/bin/env python3
"""tools/verify_replays.py [ID...]: for every 'fixed:' entry of known_findings.json that names a commit and a replay tape, revert that commit in a
scratch worktree of /repo HEAD, rebuild, and replay the tape: it has to fail there (and it holds on the current tree as part of every check).
Prints one line per entry: REPRODUCES / DOES-NOT-REPRODUCE / REVERT-CONFLICT."""
import json, os, re, subprocess, sys, shutil
ROOT = os.path.dirname(os.path.dirname(os.path.abspath(__file__)))
ids = set(sys.argv[1:])
kf = json.load(open(os.path.join(ROOT, "known_findings.json")))
WT, OUT = "/tmp/vr-wt", "/tmp/vr-out"
def sh(cmd, **kw):
    return subprocess.run(cmd, shell=True, stdout=subprocess.PIPE, stderr=subprocess.STDOUT, text=True, **kw)
for f in kf["fixed"]:
    m = re.match(r"fixed: property=(C\d+) ([0-9a-f]{7,}) ", f)
    tapes = re.findall(r"(replays/C\d+/[\w.\-]+\.tape)", f)
    if not m or not tapes:
        continue
    pid, commit = m.group(1), m.group(2)
    if ids and pid not in ids:
        continue
    sh("git -C /repo worktree remove --force %s; rm -rf %s %s; git -C /repo worktree prune" % (WT, WT, OUT))
    if sh("git -C /repo worktree add -q --detach %s HEAD" % WT).returncode != 0:
        print("%s %s WORKTREE-FAILED" % (pid, commit)); continue
    if sh("git -C %s revert --no-commit %s" % (WT, commit)).returncode != 0:
        print("%s %s REVERT-CONFLICT (%s)" % (pid, commit, tapes[0])); continue
    for tp in tapes:
        r = sh("cd %s && VERIF_REPO=%s VERIF_SCRATCH=%s timeout 900 ./check %s --show %s" % (ROOT, WT, OUT, pid, tp))
        bad = "verdict=1" in r.stdout or "SUMMARY" in r.stdout or "runtime error" in r.stdout or "Assertion" in r.stdout or "CASE-TIMEOUT" in r.stdout
        print("%s %s %s %s" % (pid, commit, "REPRODUCES" if bad else "DOES-NOT-REPRODUCE", tp), flush=True)
sh("git -C /repo worktree remove --force %s; rm -rf %s %s; git -C /repo worktree prune" % (WT, WT, OUT))
