#!/bin/bash
# tools/harvest.sh <repo-commit> <check-id> [seed]: run a check against an older commit of /repo in a scratch worktree and
# list the failing (shrunk) tapes with their first message line; tapes are left in /tmp/harvest-out/failures/<id>/
set -u
C=$1; ID=$2; SEED=${3:-1}
WT=/tmp/harvest-wt
git -C /repo worktree remove --force $WT >/dev/null 2>&1; rm -rf $WT /tmp/harvest-out
# "revert:<commit>" = current HEAD with that one commit reverted (isolates one root cause)
case "$C" in
  revert:*) git -C /repo worktree add -q --detach $WT HEAD || exit 3; git -C $WT revert --no-commit ${C#revert:} >/dev/null 2>&1 || { echo "revert failed"; exit 3; } ;;
  *) git -C /repo worktree add -q --detach $WT $C || exit 3 ;;
esac
cd "$(dirname "$0")/.."
VERIF_SEED=$SEED VERIF_REPO=$WT VERIF_SCRATCH=/tmp/harvest-out ./check $ID >/dev/null 2>&1
for f in /tmp/harvest-out/failures/$ID/*.txt; do [ -f "$f" ] || continue; echo "$(basename ${f%.txt}.tape) $(stat -c %s ${f%.txt}.tape)B :: $(grep -m1 -E 'verdict=1|SUMMARY|runtime error' $f | sed 's/.*verdict=1 //' | cut -c1-170)"; done | sort -t: -k3 | uniq -f2
git -C /repo worktree remove --force $WT >/dev/null 2>&1; rm -rf /tmp/harvest-out/.build
