#!/usr/bin/env python3
"""tools/seed_keep.py <seed_dir> <name> <property> <needs> <caught_by> [notes]
Copies a confirmed seeded change into /verif/seeded/<name>/ with meta.json."""
import json, os, shutil, sys
src, name, prop, needs, caught = sys.argv[1:6]
notes = sys.argv[6] if len(sys.argv) > 6 else ""
dst = os.path.join(os.path.dirname(os.path.dirname(os.path.abspath(__file__))), "seeded", name)
os.makedirs(dst, exist_ok=True)
for f in ("patch.diff", "demo.c", "build_demo.sh", "README.md"):
    if os.path.exists(os.path.join(src, f)):
        shutil.copy(os.path.join(src, f), os.path.join(dst, f))
meta = dict(breaks_property=prop, needs_to_manifest=needs, caught_by=caught.split(",") if caught else [],
            confirmed=dict(how="tools/seed_verify.sh: scratch worktree of /repo HEAD; stock build + testdriver 176/176 and demo exit 0 on the clean tree; "
                               "patch applied, rebuilt, testdriver 176/176, demo exit 1; then ./check <id> --tier quick with VERIF_REPO=<worktree>",
                           result=notes),
            origin="written by an independent sub-agent that saw only the property text")
json.dump(meta, open(os.path.join(dst, "meta.json"), "w"), indent=1)
print("kept", dst)
