#!/usr/bin/env python3
"""Regenerate MANIFEST.json from props/config.py (keeps the manifest valid at all times)."""
import json
import os
import subprocess
import sys

ROOT = os.path.dirname(os.path.dirname(os.path.abspath(__file__)))
sys.path.insert(0, os.path.join(ROOT, "props"))
import config  # noqa: E402

props = [json.loads(l) for l in open(os.path.join(ROOT, "properties.jsonl"))]
ids = [p["id"] for p in props]

checks = []
for pid in ids:
    if pid not in config.PROPS:
        continue
    c = config.PROPS[pid]
    checks.append(dict(
        property_id=pid,
        quick_cmd="./check %s --tier quick" % pid,
        thorough_cmd="./check %s --tier thorough" % pid,
        evidence_file="evidence/%s.json" % pid,
        replay_cmd_template="./check %s --replay {path}" % pid,
        engine=c.get("engine", "tape"),
        level_claimed=dict(category=c["level"], text=c["level_text"], design_ref=c.get("design_ref", "DESIGN.md 4." + str(int(pid[1:])))),
        level_note=c["level_note"],
        technique=c["technique"],
    ))
na = []
for pid in ids:
    if pid not in config.PROPS:
        na.append(dict(property_id=pid, reason=config.NOT_CLAIMED.get(pid, "check not built yet; the property is not claimed until its harness exists and has been validated")))

fixes = subprocess.run(["git", "-C", "/repo", "log", "--format=%h %s", "--grep=^fix:"], stdout=subprocess.PIPE, text=True).stdout.strip().splitlines()
hooks = subprocess.run(["git", "-C", "/repo", "log", "--format=%h", "--grep=^verif-hook:"], stdout=subprocess.PIPE, text=True).stdout.split()

manifest = dict(
    version=1,
    setup_cmd="./setup.sh",
    hooks=dict(
        guard="OBGM_LIBCOAP_VERIF",
        enable="tools/buildlib.py builds /repo with the repository's CMake and -DOBGM_LIBCOAP_VERIF in CMAKE_C_FLAGS (clang, ASan+UBSan / TSan); "
               "all instrumentation is link-time (ld --wrap) in /verif/sim, so no source hook exists in /repo at present",
        baseline_off_cmd="tools/baseline_off.sh",
        source_commits=hooks,
        add_only=True,
    ),
    engines=[
        dict(name="tape", path="engine/", serves_properties=[c["property_id"] for c in checks],
             kind_free_text="one verif_case(tape) per property driven by a rapidcheck tape generator with shrinking, by libFuzzer "
                            "(coverage-guided, same tape) and by a plain replay driver; python supervisor ./check merges statistics, "
                            "triages/shrinks failures out of process and writes the evidence"),
    ],
    checks=checks,
    notes="Repairs of genuine defects found by the checks are unguarded 'fix:' commits in /repo (listed in known_findings.json as fixed:). "
          "fix commits so far: " + "; ".join(fixes),
    not_applicable=na,
)
with open(os.path.join(ROOT, "MANIFEST.json"), "w") as f:
    json.dump(manifest, f, indent=1)
    f.write("\n")
try:
    import jsonschema
    jsonschema.validate(manifest, json.load(open("/root/.vp/MANIFEST.schema.json")))
    print("MANIFEST.json valid,", len(checks), "checks,", len(na), "not claimed")
except ImportError:
    print("MANIFEST.json written (jsonschema not available to validate)")
