// Independent RFC 6690 link-format printer, parser and section 4.1 filter semantics.  No libcoap header.
#pragma once
#include <algorithm>
#include <string>
#include <vector>

namespace reflink {

struct Attr {
  std::string name;
  bool has_value = false;
  std::string value;  // as registered: either a ptoken or a complete quoted-string including the quotes
};
struct Res {
  std::string path;  // without leading '/'
  std::vector<Attr> attrs;
  bool obs = false;
  bool osc = false;
};
struct Filter {
  bool present = false;
  std::string name;     // attribute name or "href"
  std::string pattern;  // after '='
};

// canonical form of one link for set comparison: "<target>" + sorted parameters
struct Link {
  std::string target;
  std::vector<std::string> params;
  bool operator==(const Link &o) const { return target == o.target && params == o.params; }
  bool operator<(const Link &o) const { return target != o.target ? target < o.target : params < o.params; }
};

inline std::string unquote(const std::string &v) {
  if (v.size() >= 2 && v[0] == '"' && v[v.size() - 1] == '"') return v.substr(1, v.size() - 2);
  return v;
}

inline bool match_one(const std::string &text, const std::string &pat, bool prefix) {
  if (prefix) return text.size() >= pat.size() && text.compare(0, pat.size(), pat) == 0;
  return text == pat;
}

// RFC 6690 4.1: href matches the target; rt / if / rel values are space separated lists and match when
// any element matches; any other attribute matches on its whole value; a trailing '*' is a prefix wildcard.
inline bool selected(const Res &r, const Filter &f) {
  if (!f.present) return true;
  std::string pat = f.pattern;
  if (f.name == "href") {
    if (!pat.empty() && pat[0] == '/') pat = pat.substr(1);
    bool prefix = !pat.empty() && pat[pat.size() - 1] == '*';
    if (prefix) pat.resize(pat.size() - 1);
    return match_one(r.path, pat, prefix);
  }
  bool prefix = !pat.empty() && pat[pat.size() - 1] == '*';
  if (prefix) pat.resize(pat.size() - 1);
  for (const Attr &a : r.attrs) {
    if (a.name != f.name) continue;
    if (!a.has_value) return false;
    std::string v = unquote(a.value);
    if (f.name == "rt" || f.name == "if" || f.name == "rel") {
      size_t st = 0;
      for (size_t i = 0; i <= v.size(); i++)
        if (i == v.size() || v[i] == ' ') {
          if (i > st || v.empty()) { if (match_one(v.substr(st, i - st), pat, prefix)) return true; }
          st = i + 1;
        }
      return false;
    }
    return match_one(v, pat, prefix);
  }
  return false;
}

inline Link link_of(const Res &r) {
  Link l;
  l.target = "</" + r.path + ">";
  for (const Attr &a : r.attrs) l.params.push_back(a.has_value ? a.name + "=" + a.value : a.name);
  if (r.obs) l.params.push_back("obs");
  if (r.osc) l.params.push_back("osc");
  std::sort(l.params.begin(), l.params.end());
  return l;
}

inline std::vector<Link> listing(const std::vector<Res> &table, const Filter &f) {
  std::vector<Link> out;
  for (const Res &r : table) {
    if (r.path == ".well-known/core") continue;
    if (selected(r, f)) out.push_back(link_of(r));
  }
  std::sort(out.begin(), out.end());
  return out;
}

// quote-aware RFC 6690 parser: link-value *( "," link-value ), link-value = "<" URI ">" *( ";" link-param )
inline bool parse(const std::string &s, std::vector<Link> *out) {
  out->clear();
  if (s.empty()) return true;
  size_t i = 0;
  while (true) {
    if (i >= s.size() || s[i] != '<') return false;
    size_t e = s.find('>', i);
    if (e == std::string::npos) return false;
    Link l;
    l.target = s.substr(i, e - i + 1);
    i = e + 1;
    while (i < s.size() && s[i] == ';') {
      i++;
      size_t st = i;
      bool inq = false;
      while (i < s.size() && (inq || (s[i] != ';' && s[i] != ','))) {
        if (s[i] == '"') inq = !inq;
        i++;
      }
      if (inq) return false;
      if (i == st) return false;
      l.params.push_back(s.substr(st, i - st));
    }
    std::sort(l.params.begin(), l.params.end());
    out->push_back(l);
    if (i == s.size()) break;
    if (s[i] != ',') return false;
    i++;
  }
  std::sort(out->begin(), out->end());
  return true;
}

}  // namespace reflink
