// Independent implementation of RFC 8613 (OSCORE) message protection on top of OpenSSL's libcrypto:
// HKDF-SHA-256 context derivation (3.2), nonce (5.2), AAD (5.4), plaintext / compressed COSE object (5.3, 6),
// inner/outer option classes (4.1, Figure 5), AES-CCM-16-64-128/256.  No libcoap code or headers are used.
#pragma once
#include "refcodec.h"
#include <openssl/evp.h>
#include <openssl/hmac.h>
#include <cstring>
#include <string>

namespace refo {
typedef std::vector<uint8_t> Bytes;

// ---- minimal CBOR (deterministic, definite lengths) ----
inline void cbor_head(Bytes &o, uint8_t major, uint64_t v) {
  if (v < 24) o.push_back((uint8_t)(major << 5 | v));
  else if (v < 256) { o.push_back((uint8_t)(major << 5 | 24)); o.push_back((uint8_t)v); }
  else if (v < 65536) { o.push_back((uint8_t)(major << 5 | 25)); o.push_back((uint8_t)(v >> 8)); o.push_back((uint8_t)v); }
  else { o.push_back((uint8_t)(major << 5 | 26)); for (int i = 3; i >= 0; i--) o.push_back((uint8_t)(v >> (8 * i))); }
}
inline void cbor_uint(Bytes &o, uint64_t v) { cbor_head(o, 0, v); }
inline void cbor_int(Bytes &o, int64_t v) { if (v >= 0) cbor_head(o, 0, (uint64_t)v); else cbor_head(o, 1, (uint64_t)(-1 - v)); }
inline void cbor_bstr(Bytes &o, const Bytes &b) { cbor_head(o, 2, b.size()); o.insert(o.end(), b.begin(), b.end()); }
inline void cbor_tstr(Bytes &o, const char *s) { size_t n = strlen(s); cbor_head(o, 3, n); o.insert(o.end(), s, s + n); }
inline void cbor_array(Bytes &o, uint64_t n) { cbor_head(o, 4, n); }
inline void cbor_nil(Bytes &o) { o.push_back(0xf6); }

// ---- HKDF-SHA-256 (RFC 5869) ----
inline Bytes hmac256(const Bytes &key, const Bytes &data) {
  uint8_t out[32];
  unsigned len = 32;
  static const uint8_t zero = 0;
  HMAC(EVP_sha256(), key.empty() ? &zero : key.data(), (int)key.size(), data.data(), data.size(), out, &len);
  return Bytes(out, out + 32);
}
inline Bytes hkdf(const Bytes &salt, const Bytes &ikm, const Bytes &info, size_t L) {
  Bytes s = salt.empty() ? Bytes(32, 0) : salt;
  Bytes prk = hmac256(s, ikm);
  Bytes okm, t;
  for (uint8_t i = 1; okm.size() < L; i++) {
    Bytes in = t;
    in.insert(in.end(), info.begin(), info.end());
    in.push_back(i);
    t = hmac256(prk, in);
    okm.insert(okm.end(), t.begin(), t.end());
  }
  okm.resize(L);
  return okm;
}

// ---- AES-CCM-16-64-{128,256}: 13 byte nonce, 8 byte tag ----
inline bool ccm_encrypt(const Bytes &key, const Bytes &nonce, const Bytes &aad, const Bytes &pt, Bytes *ct_and_tag) {
  EVP_CIPHER_CTX *c = EVP_CIPHER_CTX_new();
  int len = 0;
  bool ok = c && EVP_EncryptInit_ex(c, key.size() == 32 ? EVP_aes_256_ccm() : EVP_aes_128_ccm(), nullptr, nullptr, nullptr) == 1 &&
            EVP_CIPHER_CTX_ctrl(c, EVP_CTRL_AEAD_SET_IVLEN, 13, nullptr) == 1 && EVP_CIPHER_CTX_ctrl(c, EVP_CTRL_AEAD_SET_TAG, 8, nullptr) == 1 &&
            EVP_EncryptInit_ex(c, nullptr, nullptr, key.data(), nonce.data()) == 1 && EVP_EncryptUpdate(c, nullptr, &len, nullptr, (int)pt.size()) == 1 &&
            (aad.empty() || EVP_EncryptUpdate(c, nullptr, &len, aad.data(), (int)aad.size()) == 1);
  Bytes out(pt.size() + 8);
  static const uint8_t dummy = 0;
  if (ok) ok = EVP_EncryptUpdate(c, out.data(), &len, pt.empty() ? &dummy : pt.data(), (int)pt.size()) == 1;
  int fl = 0;
  if (ok) ok = EVP_EncryptFinal_ex(c, out.data() + len, &fl) == 1;
  if (ok) ok = EVP_CIPHER_CTX_ctrl(c, EVP_CTRL_AEAD_GET_TAG, 8, out.data() + pt.size()) == 1;
  EVP_CIPHER_CTX_free(c);
  if (ok) *ct_and_tag = out;
  return ok;
}
inline bool ccm_decrypt(const Bytes &key, const Bytes &nonce, const Bytes &aad, const Bytes &ct_and_tag, Bytes *pt) {
  if (ct_and_tag.size() < 8) return false;
  size_t n = ct_and_tag.size() - 8;
  EVP_CIPHER_CTX *c = EVP_CIPHER_CTX_new();
  int len = 0;
  Bytes tag(ct_and_tag.end() - 8, ct_and_tag.end());
  bool ok = c && EVP_DecryptInit_ex(c, key.size() == 32 ? EVP_aes_256_ccm() : EVP_aes_128_ccm(), nullptr, nullptr, nullptr) == 1 &&
            EVP_CIPHER_CTX_ctrl(c, EVP_CTRL_AEAD_SET_IVLEN, 13, nullptr) == 1 && EVP_CIPHER_CTX_ctrl(c, EVP_CTRL_AEAD_SET_TAG, 8, tag.data()) == 1 &&
            EVP_DecryptInit_ex(c, nullptr, nullptr, key.data(), nonce.data()) == 1 && EVP_DecryptUpdate(c, nullptr, &len, nullptr, (int)n) == 1 &&
            (aad.empty() || EVP_DecryptUpdate(c, nullptr, &len, aad.data(), (int)aad.size()) == 1);
  Bytes out(n + 1);
  static const uint8_t dummy = 0;
  if (ok) ok = EVP_DecryptUpdate(c, out.data(), &len, n ? ct_and_tag.data() : &dummy, (int)n) > 0;   // CCM: tag is verified here
  EVP_CIPHER_CTX_free(c);
  out.resize(n);
  if (ok) *pt = out;
  return ok;
}

// ---- security context (RFC 8613 3.1, 3.2) ----
struct Ctx {
  Bytes master_secret, master_salt, sender_id, recipient_id, id_context;
  bool has_id_context = false;
  int alg = 10;  // COSE AES-CCM-16-64-128 = 10, AES-CCM-16-64-256 = 11
  Bytes sender_key, recipient_key, common_iv;
};
inline Bytes info(const Ctx &c, const Bytes &id, const char *type, size_t L) {
  Bytes o;
  cbor_array(o, 5);
  cbor_bstr(o, id);
  if (c.has_id_context) cbor_bstr(o, c.id_context); else cbor_nil(o);
  cbor_int(o, c.alg);
  cbor_tstr(o, type);
  cbor_uint(o, L);
  return o;
}
inline void derive(Ctx &c) {
  size_t kl = c.alg == 11 ? 32 : 16;
  c.sender_key = hkdf(c.master_salt, c.master_secret, info(c, c.sender_id, "Key", kl), kl);
  c.recipient_key = hkdf(c.master_salt, c.master_secret, info(c, c.recipient_id, "Key", kl), kl);
  c.common_iv = hkdf(c.master_salt, c.master_secret, info(c, Bytes(), "IV", 13), 13);
}
// the same context seen from the other endpoint
inline Ctx mirror(const Ctx &c) {
  Ctx m = c;
  std::swap(m.sender_id, m.recipient_id);
  std::swap(m.sender_key, m.recipient_key);
  return m;
}

inline Bytes piv_bytes(uint64_t seq) {
  Bytes b;
  while (seq) { b.insert(b.begin(), (uint8_t)seq); seq >>= 8; }
  if (b.empty()) b.push_back(0);
  return b;
}
inline uint64_t piv_value(const Bytes &b) { uint64_t v = 0; for (uint8_t x : b) v = v << 8 | x; return v; }

// 5.2
inline Bytes nonce(const Ctx &c, const Bytes &id_piv, const Bytes &piv) {
  Bytes n(13, 0);
  n[0] = (uint8_t)id_piv.size();
  for (size_t i = 0; i < id_piv.size() && i < 7; i++) n[1 + 7 - id_piv.size() + i] = id_piv[i];
  for (size_t i = 0; i < piv.size() && i < 5; i++) n[8 + 5 - piv.size() + i] = piv[i];
  for (size_t i = 0; i < 13; i++) n[i] ^= c.common_iv[i];
  return n;
}
// 5.4
inline Bytes aad(const Ctx &c, const Bytes &request_kid, const Bytes &request_piv) {
  Bytes ext;
  cbor_array(ext, 5);
  cbor_uint(ext, 1);
  cbor_array(ext, 1);
  cbor_int(ext, c.alg);
  cbor_bstr(ext, request_kid);
  cbor_bstr(ext, request_piv);
  cbor_bstr(ext, Bytes());   // class I options: none defined
  Bytes enc;
  cbor_array(enc, 3);
  cbor_tstr(enc, "Encrypt0");
  cbor_bstr(enc, Bytes());
  cbor_bstr(enc, ext);
  return enc;
}

// 6.1: value of the OSCORE option
struct OscoreOpt {
  Bytes piv;            // empty = absent
  bool has_kid = false, has_kid_ctx = false;
  Bytes kid, kid_ctx;
};
inline Bytes encode_opt(const OscoreOpt &o) {
  Bytes v;
  if (o.piv.empty() && !o.has_kid && !o.has_kid_ctx) return v;
  v.push_back((uint8_t)(o.piv.size() | (o.has_kid ? 8 : 0) | (o.has_kid_ctx ? 16 : 0)));
  v.insert(v.end(), o.piv.begin(), o.piv.end());
  if (o.has_kid_ctx) { v.push_back((uint8_t)o.kid_ctx.size()); v.insert(v.end(), o.kid_ctx.begin(), o.kid_ctx.end()); }
  if (o.has_kid) v.insert(v.end(), o.kid.begin(), o.kid.end());
  return v;
}
inline bool decode_opt(const Bytes &v, OscoreOpt *o) {
  *o = OscoreOpt();
  if (v.empty()) return true;
  uint8_t f = v[0];
  if (f & 0xE0) return false;            // reserved bits
  size_t n = f & 7, p = 1;
  if (n > 5) return false;               // 6, 7 reserved
  if (p + n > v.size()) return false;
  o->piv.assign(v.begin() + 1, v.begin() + 1 + (long)n);
  p += n;
  if (f & 16) {
    if (p >= v.size()) return false;
    size_t s = v[p++];
    if (p + s > v.size()) return false;
    o->has_kid_ctx = true;
    o->kid_ctx.assign(v.begin() + (long)p, v.begin() + (long)(p + s));
    p += s;
  }
  if (f & 8) { o->has_kid = true; o->kid.assign(v.begin() + (long)p, v.end()); }
  else if (p != v.size()) return false;
  return true;
}

// 4.1 / Figure 5 (+ RFC 8768 Hop-Limit, RFC 9175 Echo / Request-Tag): where may an option appear?
enum { CLS_E = 1, CLS_U = 2 };
inline int option_class(uint32_t num) {
  switch (num) {
  case 3: case 7: case 9: case 35: case 39: case 16: return CLS_U;             // Uri-Host, Uri-Port, OSCORE, Proxy-Uri, Proxy-Scheme, Hop-Limit
  case 6: case 258: return CLS_E | CLS_U;                                      // Observe, No-Response
  case 14: case 23: case 27: case 28: case 60: case 252: case 292: return CLS_E | CLS_U;   // Max-Age, Block2, Block1, Size2, Size1, Echo, Request-Tag: inner; outer use allowed
  default: return CLS_E;
  }
}

// plaintext: code | class E options | 0xFF payload
inline Bytes plaintext(uint8_t code, const std::vector<ref::Opt> &inner, const Bytes &payload) {
  ref::Msg m;
  m.code = code;
  m.opts = inner;
  m.payload = payload;
  Bytes body = ref::encode_body(m);   // options + marker + payload
  Bytes p;
  p.push_back(code);
  p.insert(p.end(), body.begin(), body.end());
  return p;
}
inline bool parse_plaintext(const Bytes &p, uint8_t *code, std::vector<ref::Opt> *inner, Bytes *payload) {
  if (p.empty()) return false;
  *code = p[0];
  // reuse the strict option parser: build a UDP message around it
  Bytes dg = {0x40, p[0], 0, 0};
  dg.insert(dg.end(), p.begin() + 1, p.end());
  ref::DecodeResult r = ref::decode(dg.data(), dg.size(), ref::F_UDP, false);
  if (!r.ok) return false;
  *inner = r.msg.opts;
  *payload = r.msg.payload;
  return true;
}

struct Protected {
  ref::Msg outer;
  Bytes request_kid, request_piv;   // what a response to this request is bound to
};

// Protect a request.  `m` is the complete unprotected message; options are split by class (an option of class E|U goes inside,
// Observe and No-Response additionally outside).
inline Protected protect_request(const Ctx &c, const ref::Msg &m, uint64_t seq, bool send_kid_ctx) {
  Protected pr;
  std::vector<ref::Opt> inner, outer;
  bool observe = false;
  for (auto &o : m.opts) {
    int cls = option_class(o.num);
    if (o.num == 9) continue;
    if (cls & CLS_E) inner.push_back(o);
    if (cls == CLS_U || o.num == 6 || o.num == 258) outer.push_back(o);
    if (o.num == 6) observe = true;
  }
  Bytes piv = piv_bytes(seq);
  OscoreOpt oo;
  oo.piv = piv;
  oo.has_kid = true;
  oo.kid = c.sender_id;
  if (send_kid_ctx && c.has_id_context) { oo.has_kid_ctx = true; oo.kid_ctx = c.id_context; }
  outer.push_back(ref::Opt{9, encode_opt(oo)});
  std::stable_sort(outer.begin(), outer.end(), [](const ref::Opt &a, const ref::Opt &b) { return a.num < b.num; });
  Bytes ct;
  ccm_encrypt(c.sender_key, nonce(c, c.sender_id, piv), aad(c, c.sender_id, piv), plaintext(m.code, inner, m.payload), &ct);
  pr.outer = m;
  pr.outer.code = observe ? 5 : 2;   // FETCH with Observe, POST otherwise (4.2)
  pr.outer.opts = outer;
  pr.outer.payload = ct;
  pr.request_kid = c.sender_id;
  pr.request_piv = piv;
  return pr;
}

// Protect a response to a request that carried (request_kid, request_piv).  own_seq < 0: re-use the request's nonce (no Partial IV in the
// response), otherwise use an own Partial IV (mandatory for notifications after the first).
inline ref::Msg protect_response(const Ctx &c, const ref::Msg &m, const Bytes &request_kid, const Bytes &request_piv, int64_t own_seq) {
  std::vector<ref::Opt> inner, outer;
  bool observe = false;
  for (auto &o : m.opts) {
    int cls = option_class(o.num);
    if (o.num == 9) continue;
    if (o.num == 6) { observe = true; inner.push_back(ref::Opt{6, {}}); outer.push_back(o); continue; }   // 4.1.3.5.2: inner Observe is empty in responses
    if (cls & CLS_E) inner.push_back(o);
    if (cls == CLS_U) outer.push_back(o);
  }
  OscoreOpt oo;
  Bytes n;
  if (own_seq >= 0) { oo.piv = piv_bytes((uint64_t)own_seq); n = nonce(c, c.sender_id, oo.piv); }
  else n = nonce(c, request_kid, request_piv);
  outer.push_back(ref::Opt{9, encode_opt(oo)});
  std::stable_sort(outer.begin(), outer.end(), [](const ref::Opt &a, const ref::Opt &b) { return a.num < b.num; });
  Bytes ct;
  ccm_encrypt(c.sender_key, n, aad(c, request_kid, request_piv), plaintext(m.code, inner, m.payload), &ct);
  ref::Msg out = m;
  out.code = observe ? 0x45 : 0x44;  // 2.05 with Observe, 2.04 otherwise
  out.opts = outer;
  out.payload = ct;
  return out;
}

struct Unprotected {
  bool ok = false;
  const char *why = "";
  uint8_t code = 0;
  std::vector<ref::Opt> inner;
  Bytes payload;
  OscoreOpt opt;
};

// Unprotect a request received by the endpoint whose context is `c` (so the sender's id is c.recipient_id).
inline Unprotected unprotect_request(const Ctx &c, const ref::Msg &outer) {
  Unprotected u;
  const ref::Opt *oo = nullptr;
  for (auto &o : outer.opts) if (o.num == 9) { if (oo) { u.why = "two OSCORE options"; return u; } oo = &o; }
  if (!oo) { u.why = "no OSCORE option"; return u; }
  if (!decode_opt(oo->val, &u.opt)) { u.why = "OSCORE option value malformed"; return u; }
  if (!u.opt.has_kid || u.opt.piv.empty()) { u.why = "request without kid or Partial IV"; return u; }
  if (u.opt.kid != c.recipient_id) { u.why = "kid is not the peer's sender id"; return u; }
  if (u.opt.has_kid_ctx && (!c.has_id_context || u.opt.kid_ctx != c.id_context)) { u.why = "kid context differs from the id context"; return u; }
  Bytes pt;
  if (!ccm_decrypt(c.recipient_key, nonce(c, u.opt.kid, u.opt.piv), aad(c, u.opt.kid, u.opt.piv), outer.payload, &pt)) { u.why = "AEAD verification failed"; return u; }
  if (!parse_plaintext(pt, &u.code, &u.inner, &u.payload)) { u.why = "plaintext is not code + options + payload"; return u; }
  u.ok = true;
  return u;
}
// Unprotect a response to our request (request_kid = our sender id, request_piv).
inline Unprotected unprotect_response(const Ctx &c, const ref::Msg &outer, const Bytes &request_kid, const Bytes &request_piv) {
  Unprotected u;
  const ref::Opt *oo = nullptr;
  for (auto &o : outer.opts) if (o.num == 9) { if (oo) { u.why = "two OSCORE options"; return u; } oo = &o; }
  if (!oo) { u.why = "no OSCORE option"; return u; }
  if (!decode_opt(oo->val, &u.opt)) { u.why = "OSCORE option value malformed"; return u; }
  Bytes n = u.opt.piv.empty() ? nonce(c, request_kid, request_piv) : nonce(c, c.recipient_id, u.opt.piv);
  Bytes pt;
  if (!ccm_decrypt(c.recipient_key, n, aad(c, request_kid, request_piv), outer.payload, &pt)) { u.why = "AEAD verification failed"; return u; }
  if (!parse_plaintext(pt, &u.code, &u.inner, &u.payload)) { u.why = "plaintext is not code + options + payload"; return u; }
  u.ok = true;
  return u;
}

inline Bytes unhex(const char *s) {
  Bytes b;
  for (; s[0] && s[1]; s += 2) { unsigned v; sscanf(s, "%2x", &v); b.push_back((uint8_t)v); }
  return b;
}

// RFC 8613 Appendix C test vectors (C.1.1 key derivation, C.4 request); returns nullptr when the implementation reproduces them
inline const char *selftest() {
  Ctx c;
  c.master_secret = unhex("0102030405060708090a0b0c0d0e0f10");
  c.master_salt = unhex("9e7ca92223786340");
  c.sender_id = Bytes();
  c.recipient_id = {0x01};
  derive(c);
  if (c.sender_key != unhex("f0910ed7295e6ad4b54fc793154302ff")) return "C.1.1 sender key";
  if (c.recipient_key != unhex("ffb14e093c94c9cac9471648b4f98710")) return "C.1.1 recipient key";
  if (c.common_iv != unhex("4622d4dd6d944168eefb54987c")) return "C.1.1 common IV";
  if (nonce(c, Bytes(), piv_bytes(20)) != unhex("4622d4dd6d944168eefb549868")) return "C.4 nonce";
  if (aad(c, Bytes(), piv_bytes(20)) != unhex("8368456e63727970743040488501810a40411440")) return "C.4 AAD";
  Bytes req = unhex("44015d1f00003974396c6f63616c686f737483747631");
  ref::DecodeResult r = ref::decode(req.data(), req.size(), ref::F_UDP, false);
  if (!r.ok) return "C.4 request does not parse";
  Protected p = protect_request(c, r.msg, 20, false);
  if (ref::encode(p.outer, ref::F_UDP) != unhex("44025d1f00003974396c6f63616c686f7374620914ff612f1092f1776f1c1668b3825e")) return "C.4 protected request";
  Unprotected u = unprotect_request(mirror(c), p.outer);
  if (!u.ok || u.code != 1 || u.payload.size() != 0 || u.inner.size() != 1 || u.inner[0].num != 11) return "C.4 round trip";
  return nullptr;
}

}  // namespace refo
