// Independent reference for CoAP URI decomposition (RFC 3986 generic syntax restricted by RFC 7252 s6.1/6.2,
// RFC 8323 s8) and for the URI -> Uri-Path / Uri-Query conversion of RFC 7252 s6.4.  No libcoap header.
#pragma once
#include <cstdint>
#include <string>
#include <vector>

namespace refuri {

struct Parts {
  int scheme = -1;  // 0 coap 1 coaps 2 coap+tcp 3 coaps+tcp 4 http 5 https 6 coap+ws 7 coaps+ws
  std::string host; // literal text (inside the brackets for an IP-literal), not decoded
  bool ip_literal = false;
  bool unix_domain = false;
  unsigned port = 0;
  std::string path;   // without the leading '/'
  std::string query;  // without the '?'
};

static const char *SCHEMES[] = {"coap", "coaps", "coap+tcp", "coaps+tcp", "http", "https", "coap+ws", "coaps+ws"};
static const unsigned DEFPORT[] = {5683, 5684, 5683, 5684, 80, 443, 80, 443};

inline int hexv(int c) {
  if (c >= '0' && c <= '9') return c - '0';
  if (c >= 'a' && c <= 'f') return c - 'a' + 10;
  if (c >= 'A' && c <= 'F') return c - 'A' + 10;
  return -1;
}

// returns 0 on success; <0 when the URI has one of the malformations the splitter is responsible for
// (no "://", unknown scheme, proxy-only scheme outside proxy mode, empty host, unterminated '[', port > 65535,
// junk after the port)
inline int split(const std::string &u, bool proxy, Parts *out) {
  Parts p;
  if (u.empty()) return -1;
  size_t i = 0;
  if (u[0] == '/') {
    if (proxy) return -1;
    // path-only form: no scheme/host/port
    p.scheme = 0;
    p.port = 5683;
    i = 0;
  } else {
    size_t s = u.find("://");
    if (s == std::string::npos) return -2;
    std::string sch = u.substr(0, s);
    for (int k = 0; k < 8; k++) if (sch == SCHEMES[k]) p.scheme = k;
    if (p.scheme < 0) return -1;
    if ((p.scheme == 4 || p.scheme == 5) && !proxy) return -1;
    p.port = DEFPORT[p.scheme];
    i = s + 3;
    if (i < u.size() && u[i] == '[') {
      size_t e = u.find(']', i);
      if (e == std::string::npos || e == i + 1) return -3;
      p.host = u.substr(i + 1, e - i - 1);
      p.ip_literal = true;
      i = e + 1;
    } else {
      size_t e = i;
      while (e < u.size() && u[e] != ':' && u[e] != '/' && u[e] != '?') e++;
      if (e == i) return -3;
      p.host = u.substr(i, e - i);
      if (p.host.size() >= 3 && p.host[0] == '%' && p.host[1] == '2' && (p.host[2] == 'F' || p.host[2] == 'f')) {
        p.unix_domain = true;
        p.port = 0;
      }
      i = e;
    }
    if (i < u.size() && u[i] == ':') {
      if (p.unix_domain) return -5;
      i++;
      size_t e = i;
      unsigned long v = 0;
      bool over = false;
      while (e < u.size() && u[e] >= '0' && u[e] <= '9') { v = v * 10 + (unsigned)(u[e] - '0'); if (v > 65535) over = true; e++; }
      if (over) return -4;
      if (e > i) p.port = (unsigned)v;
      i = e;
    }
    if (i < u.size() && u[i] != '/' && u[i] != '?') return -1;  // junk after authority
  }
  if (i < u.size() && u[i] == '/') {
    size_t e = u.find('?', i);
    if (e == std::string::npos) e = u.size();
    p.path = u.substr(i + 1, e - i - 1);
    i = e;
  }
  if (i < u.size() && u[i] == '?') { p.query = u.substr(i + 1); i = u.size(); }
  if (i != u.size()) return -1;
  *out = p;
  return 0;
}

inline std::string pct_decode(const std::string &s) {
  std::string o;
  for (size_t i = 0; i < s.size(); i++) {
    if (s[i] == '%' && i + 2 < s.size() && hexv((unsigned char)s[i + 1]) >= 0 && hexv((unsigned char)s[i + 2]) >= 0) {
      o += (char)(hexv((unsigned char)s[i + 1]) * 16 + hexv((unsigned char)s[i + 2]));
      i += 2;
    } else o += s[i];
  }
  return o;
}

inline bool valid_escapes(const std::string &s) {
  for (size_t i = 0; i < s.size(); i++)
    if (s[i] == '%') {
      if (i + 2 >= s.size()) return false;
      if (hexv((unsigned char)s[i + 1]) < 0 || hexv((unsigned char)s[i + 2]) < 0) return false;
      i += 2;
    }
  return true;
}

// is the raw segment a dot segment once %2E is read as '.' (RFC 3986 6.2.2.2 + 5.2.4)?  1 = ".", 2 = ".."
inline int dot_kind(const std::string &raw) {
  std::string n;
  for (size_t i = 0; i < raw.size(); i++) {
    if (raw[i] == '%' && i + 2 < raw.size() && raw[i + 1] == '2' && (raw[i + 2] == 'E' || raw[i + 2] == 'e')) { n += '.'; i += 2; }
    else n += raw[i];
  }
  if (n == ".") return 1;
  if (n == "..") return 2;
  return 0;
}

// RFC 7252 6.4 step 8 after RFC 3986 5.2.4 dot-segment removal.  `rfc` = strict RFC result (a trailing dot
// segment leaves a final empty segment), `strip` = "dot segments are stripped out" (libcoap's documented
// behaviour); both are admissible for the property.
inline void path_segments(const std::string &path, std::vector<std::string> *rfc, std::vector<std::string> *strip) {
  std::vector<std::string> raw;
  size_t st = 0;
  for (size_t i = 0; i <= path.size(); i++)
    if (i == path.size() || path[i] == '/') { raw.push_back(path.substr(st, i - st)); st = i + 1; }
  std::vector<std::string> a, b;
  for (size_t k = 0; k < raw.size(); k++) {
    int d = dot_kind(raw[k]);
    bool last = k + 1 == raw.size();
    if (d == 1) { if (last) a.push_back(""); continue; }
    if (d == 2) { if (!a.empty()) a.pop_back(); if (!b.empty()) b.pop_back(); if (last) a.push_back(""); continue; }
    a.push_back(pct_decode(raw[k]));
    b.push_back(pct_decode(raw[k]));
  }
  *rfc = a;
  *strip = b;
}

inline std::vector<std::string> query_segments(const std::string &q) {
  std::vector<std::string> out;
  size_t st = 0;
  for (size_t i = 0; i <= q.size(); i++)
    if (i == q.size() || q[i] == '&') { out.push_back(pct_decode(q.substr(st, i - st))); st = i + 1; }
  return out;
}

// inverse of "join with sep, percent-encode what must be encoded": split on sep, decode every escape once
inline std::vector<std::string> key_to_segments(const std::string &key, char sep) {
  std::vector<std::string> out;
  if (key.empty()) return out;
  size_t st = 0;
  for (size_t i = 0; i <= key.size(); i++)
    if (i == key.size() || key[i] == sep) { out.push_back(pct_decode(key.substr(st, i - st))); st = i + 1; }
  return out;
}

// a list consisting of one empty segment counts as no segment
inline std::vector<std::string> norm(std::vector<std::string> v) {
  if (v.size() == 1 && v[0].empty()) v.clear();
  return v;
}

}  // namespace refuri
