// Independent reference CoAP codec written from RFC 7252 section 3, RFC 8974 (extended
// tokens) and RFC 8323 section 3 (TCP length-prefixed framing / WebSocket).  No libcoap header.
#pragma once
#include <cstdint>
#include <cstddef>
#include <string>
#include <vector>
#include <algorithm>

namespace ref {

enum Framing { F_UDP = 0, F_TCP = 1, F_WS = 2 };

struct Opt {
  uint32_t num;
  std::vector<uint8_t> val;
  bool operator==(const Opt &o) const { return num == o.num && val == o.val; }
};

struct Msg {
  uint8_t type = 0;   // 0 CON 1 NON 2 ACK 3 RST (datagram framings only)
  uint8_t code = 0;
  uint16_t mid = 0;   // datagram framings only
  std::vector<uint8_t> token;
  std::vector<Opt> opts;  // ascending option number, insertion order among equals
  std::vector<uint8_t> payload;
};

inline bool is_request(uint8_t code) { return code >= 1 && code < 32; }
inline bool is_signaling(uint8_t code) { return (code >> 5) == 7; }

// ---- per-option length limits -----------------------------------------------------
// RFC 7252 Table 4, RFC 7641 (Observe 0-3), RFC 7959 (Block1/2 0-3, Size2 0-4),
// RFC 8613 (OSCORE 0-255), RFC 8768 (Hop-Limit 1), RFC 7967 (No-Response 0-1),
// RFC 9175 (Echo 1-40, Request-Tag 0-8), RFC 9177 (Q-Block1/2 0-3).
// Signalling options: RFC 8323 section 5.
struct Limit { int lo, hi; };
inline bool base_limit(uint32_t num, Limit *l) {
  switch (num) {
  case 1: *l = {0, 8}; return true;       // If-Match
  case 3: *l = {1, 255}; return true;     // Uri-Host
  case 4: *l = {1, 8}; return true;       // ETag
  case 5: *l = {0, 0}; return true;       // If-None-Match
  case 6: *l = {0, 3}; return true;       // Observe
  case 7: *l = {0, 2}; return true;       // Uri-Port
  case 8: *l = {0, 255}; return true;     // Location-Path
  case 9: *l = {0, 255}; return true;     // OSCORE
  case 11: *l = {0, 255}; return true;    // Uri-Path
  case 12: *l = {0, 2}; return true;      // Content-Format
  case 14: *l = {0, 4}; return true;      // Max-Age
  case 15: *l = {0, 255}; return true;    // Uri-Query
  case 16: *l = {1, 1}; return true;      // Hop-Limit
  case 17: *l = {0, 2}; return true;      // Accept
  case 19: *l = {0, 3}; return true;      // Q-Block1
  case 20: *l = {0, 255}; return true;    // Location-Query
  case 23: *l = {0, 3}; return true;      // Block2
  case 27: *l = {0, 3}; return true;      // Block1
  case 28: *l = {0, 4}; return true;      // Size2
  case 31: *l = {0, 3}; return true;      // Q-Block2
  case 35: *l = {1, 1034}; return true;   // Proxy-Uri
  case 39: *l = {1, 255}; return true;    // Proxy-Scheme
  case 60: *l = {0, 4}; return true;      // Size1
  case 252: *l = {1, 40}; return true;    // Echo
  case 258: *l = {0, 1}; return true;     // No-Response
  case 292: *l = {0, 8}; return true;     // Request-Tag
  default: return false;
  }
}
// returns: 1 ok, 0 bad length / unknown critical signalling option
inline int signaling_ok(uint8_t code, uint32_t num, size_t len) {
  switch (code) {
  case 0xE1:  // 7.01 CSM
    if (num == 2) return len <= 4;   // Max-Message-Size uint 0-4
    if (num == 4) return len == 0;   // Block-Wise-Transfer empty
    if (num == 6) return len <= 3;   // Extended-Token-Length (RFC 8974) uint 0-3
    return !(num & 1);
  case 0xE2: case 0xE3:  // 7.02 Ping, 7.03 Pong
    if (num == 2) return len == 0;   // Custody empty
    return !(num & 1);
  case 0xE4:  // 7.04 Release
    if (num == 2) return len >= 1 && len <= 255;  // Alternative-Address
    if (num == 4) return len <= 3;                // Hold-Off
    return !(num & 1);
  case 0xE5:  // 7.05 Abort
    if (num == 2) return len <= 2;   // Bad-CSM-Option
    return !(num & 1);
  default: return 1;
  }
}

// ---- encoder ----------------------------------------------------------------------
inline void put_ext(std::vector<uint8_t> &o, uint32_t v, int nib) {
  if (nib == 13) o.push_back((uint8_t)(v - 13));
  else if (nib == 14) { o.push_back((uint8_t)((v - 269) >> 8)); o.push_back((uint8_t)(v - 269)); }
}
inline int nibble(uint32_t v) { return v < 13 ? (int)v : (v < 269 ? 13 : 14); }

inline size_t opt_size(uint32_t delta, size_t len) {
  size_t s = 1;
  if (delta >= 269) s += 2; else if (delta >= 13) s += 1;
  if (len >= 269) s += 2; else if (len >= 13) s += 1;
  return s + len;
}

// options + payload (the part that follows the token)
inline std::vector<uint8_t> encode_body(const Msg &m) {
  std::vector<uint8_t> o;
  uint32_t prev = 0;
  for (const Opt &op : m.opts) {
    uint32_t delta = op.num - prev;
    prev = op.num;
    int dn = nibble(delta), ln = nibble((uint32_t)op.val.size());
    o.push_back((uint8_t)((dn < 13 ? delta : dn) << 4 | (ln < 13 ? op.val.size() : ln)));
    put_ext(o, delta, dn);
    put_ext(o, (uint32_t)op.val.size(), ln);
    o.insert(o.end(), op.val.begin(), op.val.end());
  }
  if (!m.payload.empty()) {
    o.push_back(0xFF);
    o.insert(o.end(), m.payload.begin(), m.payload.end());
  }
  return o;
}

inline std::vector<uint8_t> encode(const Msg &m, Framing f) {
  std::vector<uint8_t> o;
  size_t tl = m.token.size();
  // RFC 8974 2.1: TKL 0..12 is the token length itself, 13 -> 8-bit (len-13), 14 -> 16-bit (len-269)
  int tkl = tl < 13 ? (int)tl : (tl < 269 ? 13 : 14);
  std::vector<uint8_t> body = encode_body(m);
  if (f == F_UDP) {
    o.push_back((uint8_t)(1 << 6 | (m.type & 3) << 4 | tkl));
    o.push_back(m.code);
    o.push_back((uint8_t)(m.mid >> 8));
    o.push_back((uint8_t)m.mid);
  } else if (f == F_TCP) {
    size_t len = body.size();
    if (len < 13) o.push_back((uint8_t)(len << 4 | tkl));
    else if (len < 269) { o.push_back((uint8_t)(13 << 4 | tkl)); o.push_back((uint8_t)(len - 13)); }
    else if (len < 65805) { o.push_back((uint8_t)(14 << 4 | tkl)); o.push_back((uint8_t)((len - 269) >> 8)); o.push_back((uint8_t)(len - 269)); }
    else {
      uint32_t v = (uint32_t)(len - 65805);
      o.push_back((uint8_t)(15 << 4 | tkl));
      o.push_back((uint8_t)(v >> 24)); o.push_back((uint8_t)(v >> 16)); o.push_back((uint8_t)(v >> 8)); o.push_back((uint8_t)v);
    }
    o.push_back(m.code);
  } else {
    o.push_back((uint8_t)tkl);  // Len nibble is 0 on WebSockets (RFC 8323 3.3 / 8.2)
    o.push_back(m.code);
  }
  if (tkl == 13) o.push_back((uint8_t)(tl - 13));
  else if (tkl == 14) { o.push_back((uint8_t)((tl - 269) >> 8)); o.push_back((uint8_t)(tl - 269)); }
  o.insert(o.end(), m.token.begin(), m.token.end());
  o.insert(o.end(), body.begin(), body.end());
  return o;
}

// ---- strict decoder ---------------------------------------------------------------
struct DecodeResult {
  bool ok = false;
  const char *why = "";
  bool past_header = false;  // fixed header + token were fine (option parsing was exercised)
  size_t hdr_len = 0;        // bytes before the (extended) token length / token
  Msg msg;
};

// check_limits: apply the per-option length table (C03 "within the per-option length limits")
inline DecodeResult decode(const uint8_t *d, size_t n, Framing f, bool check_limits = true) {
  DecodeResult r;
  size_t p = 0;
  int tkl;
  size_t declared = 0;  // TCP: declared length of options+payload
  if (f == F_UDP) {
    if (n < 4) { r.why = "short header"; return r; }
    if ((d[0] >> 6) != 1) { r.why = "version"; return r; }
    r.msg.type = (d[0] >> 4) & 3;
    tkl = d[0] & 15;
    r.msg.code = d[1];
    r.msg.mid = (uint16_t)(d[2] << 8 | d[3]);
    p = 4;
  } else if (f == F_TCP) {
    if (n < 2) { r.why = "short header"; return r; }
    int ln = d[0] >> 4;
    tkl = d[0] & 15;
    p = 1;
    if (ln < 13) declared = ln;
    else if (ln == 13) { if (n < 3) { r.why = "short header"; return r; } declared = 13 + d[1]; p = 2; }
    else if (ln == 14) { if (n < 4) { r.why = "short header"; return r; } declared = 269 + (d[1] << 8 | d[2]); p = 3; }
    else { if (n < 6) { r.why = "short header"; return r; } declared = 65805ull + ((uint32_t)d[1] << 24 | d[2] << 16 | d[3] << 8 | d[4]); p = 5; }
    r.msg.code = d[p++];
    r.msg.type = 0;
  } else {
    if (n < 2) { r.why = "short header"; return r; }
    // RFC 8323 4.2: the sender sets Len to zero, "the recipient MUST ignore the value"
    tkl = d[0] & 15;
    r.msg.code = d[1];
    p = 2;
    r.msg.type = 0;
  }
  r.hdr_len = p;
  size_t tl;
  if (tkl <= 12) tl = tkl;
  else if (tkl == 13) { if (p + 1 > n) { r.why = "short ext tkl"; return r; } tl = 13 + d[p]; p += 1; }
  else if (tkl == 14) { if (p + 2 > n) { r.why = "short ext tkl"; return r; } tl = 269 + (d[p] << 8 | d[p + 1]); p += 2; }
  else { r.why = "reserved tkl"; return r; }   // 15 is reserved (RFC 8974 2.1)
  if (p + tl > n) { r.why = "token beyond end"; return r; }
  r.msg.token.assign(d + p, d + p + tl);
  p += tl;
  if (f == F_TCP) {
    // length prefix must describe exactly what follows the token
    if (declared != n - p) { r.why = "tcp length mismatch"; return r; }
  }
  if (r.msg.code == 0) {
    // Empty message: nothing after the header, no token (RFC 7252 4.1)
    if (tl != 0 || p != n) { r.why = "non-empty Empty"; return r; }
    r.ok = true;
    r.past_header = true;
    return r;
  }
  r.past_header = true;
  uint32_t num = 0;
  bool limits_ok = true;
  while (p < n) {
    uint8_t b = d[p];
    if (b == 0xFF) {
      p++;
      if (p == n) { r.why = "marker without payload"; return r; }
      r.msg.payload.assign(d + p, d + n);
      p = n;
      break;
    }
    int dn = b >> 4, ln = b & 15;
    p++;
    if (dn == 15 || ln == 15) { r.why = "reserved nibble"; return r; }
    uint32_t delta = dn, len = ln;
    if (dn == 13) { if (p + 1 > n) { r.why = "trunc delta"; return r; } delta = 13 + d[p]; p += 1; }
    else if (dn == 14) { if (p + 2 > n) { r.why = "trunc delta"; return r; } delta = 269 + (d[p] << 8 | d[p + 1]); p += 2; }
    if (ln == 13) { if (p + 1 > n) { r.why = "trunc len"; return r; } len = 13 + d[p]; p += 1; }
    else if (ln == 14) { if (p + 2 > n) { r.why = "trunc len"; return r; } len = 269 + (d[p] << 8 | d[p + 1]); p += 2; }
    num += delta;
    if (num > 65535) { r.why = "option number > 65535"; return r; }
    if (p + len > n) { r.why = "trunc value"; return r; }
    if (check_limits) {
      if (is_signaling(r.msg.code)) {
        if (!signaling_ok(r.msg.code, num, len)) limits_ok = false;
      } else {
        Limit l;
        if (base_limit(num, &l) && ((int)len < l.lo || (int)len > l.hi)) limits_ok = false;
      }
    }
    Opt o;
    o.num = num;
    o.val.assign(d + p, d + p + len);
    r.msg.opts.push_back(std::move(o));
    p += len;
  }
  if (!limits_ok) { r.why = "option length limit"; return r; }
  r.ok = true;
  return r;
}

inline bool same(const Msg &a, const Msg &b, bool datagram) {
  if (datagram && (a.type != b.type || a.mid != b.mid)) return false;
  return a.code == b.code && a.token == b.token && a.opts == b.opts && a.payload == b.payload;
}

}  // namespace ref
