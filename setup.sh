#!/bin/sh
# MANIFEST.setup_cmd: compile the repo-independent engine objects once (offline, files on disk only).
set -e
cd "$(dirname "$0")"
python3 - <<'PY'
import sys, os
sys.path.insert(0, os.path.join(os.getcwd(), "tools"))
sys.path.insert(0, os.path.join(os.getcwd(), "props"))
import importlib.machinery, importlib.util
loader = importlib.machinery.SourceFileLoader("check", os.path.join(os.getcwd(), "check"))
spec = importlib.util.spec_from_loader("check", loader)
mod = importlib.util.module_from_spec(spec)
loader.exec_module(mod)
mod.build_engine()
print("engine objects built")
PY
